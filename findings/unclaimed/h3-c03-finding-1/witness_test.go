package node

// C03 witness 1: the content of a "signature_reconstructed" board message is stored as is.
// client/services/node/node_service.go processSignature keeps SrcPayload, File, MessageID, BatchID, ValIdx and Signature
// of every entry exactly as the sender wrote them: nothing is compared with the proposal of the batch
// and the signature is not verified under the master key of the round.

import (
	"bytes"
	"context"
	"crypto/ed25519"
	"crypto/sha256"
	"encoding/hex"
	"encoding/json"
	"fmt"
	"path/filepath"
	"sort"
	"sync"
	"testing"
	"time"

	"github.com/google/uuid"
	"github.com/lidofinance/dc4bc/airgapped"
	"github.com/lidofinance/dc4bc/client/api/dto"
	"github.com/lidofinance/dc4bc/client/config"
	"github.com/lidofinance/dc4bc/client/modules/keystore"
	"github.com/lidofinance/dc4bc/client/modules/state"
	oprepo "github.com/lidofinance/dc4bc/client/repositories/operation"
	sigrepo "github.com/lidofinance/dc4bc/client/repositories/signature"
	"github.com/lidofinance/dc4bc/client/services"
	"github.com/lidofinance/dc4bc/client/services/fsmservice"
	"github.com/lidofinance/dc4bc/client/services/operation"
	"github.com/lidofinance/dc4bc/client/services/signature"
	"github.com/lidofinance/dc4bc/client/types"
	"github.com/lidofinance/dc4bc/fsm/fsm"
	spf "github.com/lidofinance/dc4bc/fsm/state_machines/signature_proposal_fsm"
	sif "github.com/lidofinance/dc4bc/fsm/state_machines/signing_proposal_fsm"
	fsmtypes "github.com/lidofinance/dc4bc/fsm/types"
	"github.com/lidofinance/dc4bc/fsm/types/requests"
	"github.com/lidofinance/dc4bc/pkg/utils"
	"github.com/lidofinance/dc4bc/storage"
)

// A registered participant which is NOT the proposer of the batch posts a "signature_reconstructed" message that
// names the batch and a proposed message identifier but carries another payload, another file name and a junk signature,
// plus an identifier that was never proposed. Honest nodes must keep, next to the identifiers of the batch,
// only the payloads of the proposal.
func TestC03_ParticipantRewritesStoredPayload(t *testing.T) {
	net := newFaHNet(t, 3)
	dkgID := net.runDKG(2)
	honest, proposer, byz := net.nodes[0], net.nodes[1], net.nodes[2]

	proposed := []byte("the payload which was proposed")
	batch := requests.SigningBatchProposalStartRequest{
		BatchID:       "batch-1",
		ParticipantId: net.idOf(proposer),
		CreatedAt:     time.Now(),
		SigningTasks:  []requests.SigningTask{{MessageID: "m1", File: "m1.txt", Payload: proposed}},
	}
	bz, _ := json.Marshal(batch)
	net.post(proposer, sif.EventSigningStart, bz)
	net.settle(nil) // everybody signs, everybody reconstructs and broadcasts
	faRequireSigned(t, honest, dkgID, proposed)

	forged, _ := json.Marshal([]fsmtypes.ReconstructedSignature{
		{BatchID: "batch-1", MessageID: "m1", File: "other.txt", SrcPayload: []byte("a payload nobody proposed"), Signature: []byte("junk")},
		{BatchID: "batch-1", MessageID: "ghost", File: "ghost.txt", SrcPayload: []byte("an identifier nobody proposed"), Signature: []byte("junk")},
	})
	net.post(byz, types.SignatureReconstructed, forged)
	net.settle(nil)

	stored, err := honest.sigSvc.GetSignaturesByBatchID(&dto.SignaturesByBatchIdDTO{DkgID: dkgID, BatchID: "batch-1"})
	if err != nil {
		t.Fatal(err)
	}
	var ids []string
	for id := range stored {
		ids = append(ids, id)
	}
	sort.Strings(ids)
	if len(ids) != 1 || ids[0] != "m1" {
		t.Errorf("the proposal of batch-1 expands to the identifiers [m1], the store of %s keeps %v", honest.name, ids)
	}
	for _, e := range stored["m1"] {
		if !bytes.Equal(e.SrcPayload, proposed) || e.File != "m1.txt" {
			t.Errorf("%s keeps for batch-1/m1 (entry of %s) the payload %q of file %q; proposed: %q of file %q",
				honest.name, e.Username, e.SrcPayload, e.File, proposed, "m1.txt")
		}
	}
	exported, err := utils.PrepareSignaturesToDump(stored)
	if err != nil {
		t.Fatal(err)
	}
	if _, ok := (*exported)["ghost"]; ok {
		t.Errorf("the export of batch-1 contains the identifier \"ghost\" (payload %q) which is not in the proposal",
			(*exported)["ghost"].Payload)
	}
}

// The proposer of the batch does the same: its entry is the first one of the identifier,
// the one PrepareSignaturesToDump exports.
func TestC03_ProposerRewritesExportedPayload(t *testing.T) {
	net := newFaHNet(t, 3)
	dkgID := net.runDKG(2)
	honest, proposer := net.nodes[0], net.nodes[1]

	proposed := []byte("the payload which was proposed")
	batch := requests.SigningBatchProposalStartRequest{
		BatchID:       "batch-1",
		ParticipantId: net.idOf(proposer),
		CreatedAt:     time.Now(),
		SigningTasks:  []requests.SigningTask{{MessageID: "m1", File: "m1.txt", Payload: proposed}},
	}
	bz, _ := json.Marshal(batch)
	net.post(proposer, sif.EventSigningStart, bz)
	net.settle(nil)
	faRequireSigned(t, honest, dkgID, proposed)

	forged, _ := json.Marshal([]fsmtypes.ReconstructedSignature{
		{BatchID: "batch-1", MessageID: "m1", File: "other.txt", SrcPayload: []byte("a payload nobody proposed"), Signature: []byte("junk")},
	})
	net.post(proposer, types.SignatureReconstructed, forged)
	net.settle(nil)

	stored, err := honest.sigSvc.GetSignaturesByBatchID(&dto.SignaturesByBatchIdDTO{DkgID: dkgID, BatchID: "batch-1"})
	if err != nil {
		t.Fatal(err)
	}
	exported, err := utils.PrepareSignaturesToDump(stored)
	if err != nil {
		t.Fatal(err)
	}
	got := (*exported)["m1"]
	if !bytes.Equal(got.Payload, proposed) || got.File != "m1.txt" {
		t.Errorf("%s exports for m1 the payload %q of file %q with signature %q; the proposal on the board says %q of file %q",
			honest.name, got.Payload, got.File, got.Signature, proposed, "m1.txt")
	}
}

// faRequireSigned checks the setup: before the forged message the node keeps for batch-1/m1 three entries
// (one per reconstructing node), all with the proposed payload and a signature.
func faRequireSigned(t *testing.T, n *faHNode, dkgID string, proposed []byte) {
	t.Helper()
	stored, err := n.sigSvc.GetSignaturesByBatchID(&dto.SignaturesByBatchIdDTO{DkgID: dkgID, BatchID: "batch-1"})
	if err != nil {
		t.Fatal(err)
	}
	if len(stored) != 1 || len(stored["m1"]) != 3 {
		t.Fatalf("setup: batch-1 is not signed: %+v", stored)
	}
	for _, e := range stored["m1"] {
		if !bytes.Equal(e.SrcPayload, proposed) || e.File != "m1.txt" || len(e.Signature) == 0 {
			t.Fatalf("setup: unexpected entry before the forged message: %+v", e)
		}
	}
}

// ---- in-process harness: n real nodes (real FSM, real stores) and n real airgapped machines around an in-memory board ----

// faHBoard is an in-memory append-only bulletin board shared by all nodes of a test.
type faHBoard struct {
	mu   sync.Mutex
	msgs []storage.Message
}

func (b *faHBoard) Send(messages ...storage.Message) error {
	b.mu.Lock()
	defer b.mu.Unlock()
	for _, m := range messages {
		m.Offset = uint64(len(b.msgs))
		b.msgs = append(b.msgs, m)
	}
	return nil
}

func (b *faHBoard) GetMessages(offset uint64) ([]storage.Message, error) {
	b.mu.Lock()
	defer b.mu.Unlock()
	if offset >= uint64(len(b.msgs)) {
		return nil, nil
	}
	out := make([]storage.Message, len(b.msgs)-int(offset))
	copy(out, b.msgs[offset:])
	return out, nil
}
func (b *faHBoard) Close() error                            { return nil }
func (b *faHBoard) IgnoreMessages(_ []string, _ bool) error { return nil }
func (b *faHBoard) UnignoreMessages()                       {}
func (b *faHBoard) len() int                                { b.mu.Lock(); defer b.mu.Unlock(); return len(b.msgs) }
func (b *faHBoard) at(i int) storage.Message                { b.mu.Lock(); defer b.mu.Unlock(); return b.msgs[i] }

type faHLogger struct {
	t    *testing.T
	name string
	mu   sync.Mutex
	logs []string
}

func (l *faHLogger) Log(format string, args ...interface{}) {
	l.mu.Lock()
	defer l.mu.Unlock()
	l.logs = append(l.logs, fmt.Sprintf("[%s] %s", l.name, fmt.Sprintf(format, args...)))
}

type faHNode struct {
	name    string
	svc     *BaseNodeService
	keyPair *keystore.KeyPair
	air     *airgapped.Machine
	opSvc   operation.OperationService
	sigSvc  signature.SignatureService
	fsmSvc  fsmservice.FSMService
	log     *faHLogger
	seen    int
	// hook to tamper with / observe a signing operation before it is given to the airgapped machine
	signedOps []types.Operation
}

type faHNet struct {
	t     *testing.T
	board *faHBoard
	nodes []*faHNode
	dkgID string
}

func newFaHNet(t *testing.T, n int) *faHNet {
	t.Helper()
	dir := t.TempDir()
	net := &faHNet{t: t, board: &faHBoard{}}
	for i := 0; i < n; i++ {
		name := fmt.Sprintf("node_%d", i)
		st, err := state.NewLevelDBState(filepath.Join(dir, name+"_state"), "topic")
		if err != nil {
			t.Fatalf("state: %v", err)
		}
		ks, err := keystore.NewLevelDBKeyStore(name, filepath.Join(dir, name+"_ks"))
		if err != nil {
			t.Fatalf("keystore: %v", err)
		}
		kp := keystore.NewKeyPair()
		if err := ks.PutKeys(name, kp); err != nil {
			t.Fatalf("putkeys: %v", err)
		}
		air, err := airgapped.NewMachine(filepath.Join(dir, name+"_air"))
		if err != nil {
			t.Fatalf("airgapped: %v", err)
		}
		air.SetEncryptionKey([]byte("very_strong_password"))
		if err := air.InitKeys(); err != nil {
			t.Fatalf("initkeys: %v", err)
		}
		opRepo, err := oprepo.NewOperationRepo(st, "topic")
		if err != nil {
			t.Fatalf("oprepo: %v", err)
		}
		opSvc := operation.NewOperationService(opRepo)
		sigSvc := signature.NewSignatureService(sigrepo.NewSignatureRepo(st))
		fsmSvc := fsmservice.NewFSMService(st, net.board, "")
		lg := &faHLogger{t: t, name: name}
		sp := services.ServiceProvider{}
		sp.SetLogger(lg)
		sp.SetState(st)
		sp.SetKeyStore(ks)
		sp.SetStorage(net.board)
		sp.SetFSMService(fsmSvc)
		sp.SetOperationService(opSvc)
		sp.SetSignatureService(sigSvc)
		cfg := config.Config{Username: name, KafkaStorageConfig: &config.KafkaStorageConfig{Topic: "topic"}}
		svc, err := NewNode(context.Background(), &cfg, &sp)
		if err != nil {
			t.Fatalf("newnode: %v", err)
		}
		net.nodes = append(net.nodes, &faHNode{name: name, svc: svc.(*BaseNodeService), keyPair: kp, air: air,
			opSvc: opSvc, sigSvc: sigSvc, fsmSvc: fsmSvc, log: lg})
	}
	return net
}

// deliver feeds every node the board messages it has not seen yet (what Poll does).
func (net *faHNet) deliver() bool {
	progressed := false
	for _, n := range net.nodes {
		for n.seen < net.board.len() {
			m := net.board.at(n.seen)
			n.seen++
			progressed = true
			if m.RecipientAddr == "" || m.RecipientAddr == n.name {
				if err := n.svc.ProcessMessage(m); err != nil {
					n.log.Log("Failed to process message with offset %d: %v", m.Offset, err)
				}
			}
		}
	}
	return progressed
}

// operate lets every operator carry the pending operations to the airgapped machine and back.
// skip(node, op) == true leaves the operation pending.
func (net *faHNet) operate(skip func(n *faHNode, op *types.Operation) bool) bool {
	progressed := false
	for _, n := range net.nodes {
		ops, err := n.opSvc.GetOperations()
		if err != nil {
			net.t.Fatalf("GetOperations: %v", err)
		}
		for _, op := range ops {
			if skip != nil && skip(n, op) {
				continue
			}
			progressed = true
			if fsm.State(op.Type) == spf.StateAwaitParticipantsConfirmations {
				if err := n.svc.ApproveParticipation(&dto.OperationIdDTO{OperationID: op.ID}); err != nil {
					net.t.Fatalf("approve: %v", err)
				}
				continue
			}
			if fsm.State(op.Type) == sif.StateSigningAwaitPartialSigns {
				n.signedOps = append(n.signedOps, *op)
			}
			res, err := n.air.GetOperationResult(*op)
			if err != nil {
				net.t.Fatalf("airgapped: %v", err)
			}
			if err := n.svc.ProcessOperation(&dto.OperationDTO{ID: res.ID, Type: string(res.Type), Payload: res.Payload,
				ResultMsgs: res.ResultMsgs, CreatedAt: res.CreatedAt, DkgID: res.DKGIdentifier, To: res.To, Event: res.Event,
				ExtraData: res.ExtraData}); err != nil {
				n.log.Log("ProcessOperation failed: %v", err)
			}
		}
	}
	return progressed
}

func (net *faHNet) settle(skip func(n *faHNode, op *types.Operation) bool) {
	for i := 0; i < 200; i++ {
		a := net.deliver()
		b := net.operate(skip)
		if !a && !b {
			return
		}
	}
	net.t.Fatalf("network does not settle")
}

func (net *faHNet) runDKG(threshold int) string {
	var participants []*requests.SignatureProposalParticipantsEntry
	for _, n := range net.nodes {
		pk, err := n.air.GetPubKey().MarshalBinary()
		if err != nil {
			net.t.Fatalf("pubkey: %v", err)
		}
		participants = append(participants, &requests.SignatureProposalParticipantsEntry{
			Username: n.name, PubKey: n.keyPair.Pub, DkgPubKey: pk})
	}
	bz, err := json.Marshal(requests.SignatureProposalParticipantsListRequest{
		Participants: participants, SigningThreshold: threshold, CreatedAt: time.Now()})
	if err != nil {
		net.t.Fatal(err)
	}
	if err := net.nodes[0].svc.StartDKG(&dto.StartDkgDTO{Payload: bz}); err != nil {
		net.t.Fatalf("startdkg: %v", err)
	}
	h := sha256.Sum256(bz)
	net.dkgID = hex.EncodeToString(h[:])
	net.settle(nil)
	for _, n := range net.nodes {
		inst, err := n.fsmSvc.GetFSMInstance(net.dkgID, false)
		if err != nil {
			net.t.Fatalf("fsm: %v", err)
		}
		st, _ := inst.State()
		if st != sif.StateSigningIdle {
			for _, l := range n.log.logs {
				net.t.Log(l)
			}
			net.t.Fatalf("%s: DKG did not finish, state %s", n.name, st)
		}
	}
	return net.dkgID
}

// post puts a message signed by the given participant on the board (what any registered participant can do).
func (net *faHNet) post(from *faHNode, event fsm.Event, data []byte) {
	m := storage.Message{ID: uuid.New().String(), DkgRoundID: net.dkgID, Event: string(event), Data: data, SenderAddr: from.name}
	m.Signature = ed25519.Sign(from.keyPair.Priv, m.Bytes())
	if err := net.board.Send(m); err != nil {
		net.t.Fatal(err)
	}
}

func (net *faHNet) idOf(n *faHNode) int {
	inst, err := n.fsmSvc.GetFSMInstance(net.dkgID, false)
	if err != nil {
		net.t.Fatal(err)
	}
	id, err := inst.GetIDByUsername(n.name)
	if err != nil {
		net.t.Fatal(err)
	}
	return id
}

func (net *faHNet) dumpLogs() {
	for _, n := range net.nodes {
		for _, l := range n.log.logs {
			net.t.Log(l)
		}
	}
}
