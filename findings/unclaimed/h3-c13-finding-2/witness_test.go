package node

// Witness for property C13: a hot node that dies in the middle of posting its deals (between two appends of one
// storage.Send) and is restarted on the same state directory cannot bring the key generation to an end any more.
//
// Three real hot nodes (LevelDB state, file board, real airgapped machines) run the real Poll loop; the operators'
// actions go through ProcessOperation / ApproveParticipation. Nothing but the storage handle of the victim is wrapped,
// and the wrapper only decides where the process dies.

import (
	"context"
	"encoding/json"
	"fmt"
	"path/filepath"
	"reflect"
	"sort"
	"strings"
	"testing"
	"time"
	"unsafe"

	"github.com/syndtr/goleveldb/leveldb"

	"github.com/lidofinance/dc4bc/airgapped"
	"github.com/lidofinance/dc4bc/client/api/dto"
	"github.com/lidofinance/dc4bc/client/config"
	"github.com/lidofinance/dc4bc/client/modules/keystore"
	"github.com/lidofinance/dc4bc/client/modules/state"
	oprepo "github.com/lidofinance/dc4bc/client/repositories/operation"
	sigrepo "github.com/lidofinance/dc4bc/client/repositories/signature"
	"github.com/lidofinance/dc4bc/client/services"
	"github.com/lidofinance/dc4bc/client/services/fsmservice"
	"github.com/lidofinance/dc4bc/client/services/operation"
	"github.com/lidofinance/dc4bc/client/services/signature"
	"github.com/lidofinance/dc4bc/client/types"
	"github.com/lidofinance/dc4bc/fsm/fsm"
	dpf "github.com/lidofinance/dc4bc/fsm/state_machines/dkg_proposal_fsm"
	spf "github.com/lidofinance/dc4bc/fsm/state_machines/signature_proposal_fsm"
	sif "github.com/lidofinance/dc4bc/fsm/state_machines/signing_proposal_fsm"
	"github.com/lidofinance/dc4bc/fsm/types/requests"
	"github.com/lidofinance/dc4bc/storage"
	"github.com/lidofinance/dc4bc/storage/file_storage"
)

const c13dTopic = "topic"

type c13dDied struct{}

type c13dQuietLogger struct{ lines []string }

func (l *c13dQuietLogger) Log(format string, args ...interface{}) {
	l.lines = append(l.lines, fmt.Sprintf(format, args...))
}

// c13dBoard is the victim's handle of the file board. Messages of one Send are appended one by one, exactly as
// FileStorage.Send does it; die, when set, is asked after every append whether the process is dead now.
type c13dBoard struct {
	storage.Storage
	die func(sent storage.Message) bool
}

func (b *c13dBoard) Send(msgs ...storage.Message) error {
	for i := range msgs {
		if err := b.Storage.Send(msgs[i]); err != nil {
			return err
		}
		if b.die != nil && b.die(msgs[i]) {
			panic(c13dDied{})
		}
	}
	return nil
}

type c13dNode struct {
	name     string
	stateDir string
	board    string
	lock     string
	ldb      *state.LevelDBState
	ks       keystore.KeyStore
	kp       *keystore.KeyPair
	air      *airgapped.Machine
	stg      storage.Storage
	die      func(sent storage.Message) bool
	node     *BaseNodeService
	ops      operation.OperationService
	fsm      fsmservice.FSMService
	logger   *c13dQuietLogger
	results  map[string]types.Operation // the operator keeps the answers of the airgapped machine
	down     bool
}

// start is what `dc4bc_d start` does on a state directory: state, repositories, services, node
func (n *c13dNode) start() error {
	ldb, err := state.NewLevelDBState(n.stateDir, c13dTopic)
	if err != nil {
		return err
	}
	n.ldb = ldb
	fs, err := file_storage.NewFileStorage(n.board, n.lock)
	if err != nil {
		return err
	}
	n.stg = &c13dBoard{Storage: fs, die: n.die}

	opRepo, err := oprepo.NewOperationRepo(ldb, c13dTopic)
	if err != nil {
		return err
	}
	n.ops = operation.NewOperationService(opRepo)
	n.fsm = fsmservice.NewFSMService(ldb, n.stg, c13dTopic)

	sp := services.ServiceProvider{}
	sp.SetLogger(n.logger)
	sp.SetState(ldb)
	sp.SetKeyStore(n.ks)
	sp.SetStorage(n.stg)
	sp.SetFSMService(n.fsm)
	sp.SetOperationService(n.ops)
	sp.SetSignatureService(signature.NewSignatureService(sigrepo.NewSignatureRepo(ldb)))

	cfg := config.Config{Username: n.name, KafkaStorageConfig: &config.KafkaStorageConfig{Topic: c13dTopic}}
	svc, err := NewNode(context.Background(), &cfg, &sp)
	if err != nil {
		return err
	}
	n.node = svc.(*BaseNodeService)
	n.down = false
	return nil
}

// kill releases what the operating system takes back from a dead process: the lock of the state database and the
// board handle. Nothing is flushed or written.
func (n *c13dNode) kill() error {
	n.down = true
	_ = n.stg.Close()
	f := reflect.ValueOf(n.ldb).Elem().FieldByName("stateDb")
	db := *(**leveldb.DB)(unsafe.Pointer(f.UnsafeAddr()))
	return db.Close()
}

func (n *c13dNode) fsmState(dkgID string) string {
	inst, err := n.fsm.GetFSMInstance(dkgID, false)
	if err != nil {
		return "no round"
	}
	st, _ := inst.State()
	return string(st)
}

type c13dCluster struct {
	t     *testing.T
	dir   string
	nodes []*c13dNode
	dkgID string
}

var c13dMnemonics = []string{
	"old hawk occur merry sun valve reunion crime gallery purse mule shove ramp federal achieve ahead slam thought arrow can visual body response feed",
	"gold echo rookie frequent film mistake cart return teach off describe bright copper crucial brush present airport clutch slight theory rigid rib rich street",
	"fence body struggle huge neutral couple inherit almost battle demand unlock sport lawn raise slim robot water case economy orange fit spawn danger inside",
}

func c13dNewCluster(t *testing.T, n int) *c13dCluster {
	dir := t.TempDir()
	c := &c13dCluster{t: t, dir: dir}
	for i := 0; i < n; i++ {
		name := fmt.Sprintf("node_%d", i)
		nd := &c13dNode{
			name:     name,
			stateDir: filepath.Join(dir, name+"_state"),
			board:    filepath.Join(dir, "board"),
			lock:     filepath.Join(dir, "board.lock"),
			logger:   &c13dQuietLogger{},
			results:  map[string]types.Operation{},
		}
		ks, err := keystore.NewLevelDBKeyStore(name, filepath.Join(dir, name+"_keys"))
		if err != nil {
			t.Fatal(err)
		}
		nd.ks = ks
		nd.kp = keystore.NewKeyPair()
		if err := ks.PutKeys(name, nd.kp); err != nil {
			t.Fatal(err)
		}
		air, err := airgapped.NewMachine(filepath.Join(dir, name+"_airgapped"))
		if err != nil {
			t.Fatal(err)
		}
		air.SetEncryptionKey([]byte("very_strong_password"))
		if err := air.SetBaseSeed(c13dMnemonics[i]); err != nil {
			t.Fatal(err)
		}
		if err := air.InitKeys(); err != nil {
			t.Fatal(err)
		}
		nd.air = air
		if err := nd.start(); err != nil {
			t.Fatal(err)
		}
		c.nodes = append(c.nodes, nd)
	}
	return c
}

func (c *c13dCluster) stop() {
	for _, n := range c.nodes {
		if !n.down {
			_ = n.kill()
		}
	}
}

func (c *c13dCluster) boardLen() uint64 {
	fs, err := file_storage.NewFileStorage(filepath.Join(c.dir, "board"), filepath.Join(c.dir, "board.lock"))
	if err != nil {
		c.t.Fatal(err)
	}
	defer fs.Close()
	msgs, err := fs.GetMessages(0)
	if err != nil {
		c.t.Fatal(err)
	}
	return uint64(len(msgs))
}

// poll runs the real Poll loop of every running node until each of them has consumed the whole board
func (c *c13dCluster) poll() {
	type run struct {
		n      *c13dNode
		cancel context.CancelFunc
		done   chan error
	}
	var runs []run
	for _, n := range c.nodes {
		if n.down {
			continue
		}
		ctx, cancel := context.WithCancel(context.Background())
		n.node.ctx = ctx
		r := run{n: n, cancel: cancel, done: make(chan error, 1)}
		go func(r run) { r.done <- r.n.node.Poll() }(r)
		runs = append(runs, r)
	}
	deadline := time.Now().Add(60 * time.Second)
	stable := 0
	for stable < 2 {
		if time.Now().After(deadline) {
			c.t.Fatalf("the nodes did not consume the board in time")
		}
		time.Sleep(100 * time.Millisecond)
		want := c.boardLen()
		all := true
		for _, r := range runs {
			off, err := r.n.node.GetStateOffset()
			if err != nil {
				c.t.Fatal(err)
			}
			if off != want {
				all = false
			}
		}
		if all {
			stable++
		} else {
			stable = 0
		}
	}
	for _, r := range runs {
		r.cancel()
		if err := <-r.done; err != nil {
			c.t.Fatalf("Poll of %s failed: %v", r.n.name, err)
		}
	}
}

// operate is the operator of node n: every offered operation is carried to the airgapped machine (once, the answer is
// kept) and the answer is given back to the node. It returns the number of operations handled and whether the node died.
func (c *c13dCluster) operate(n *c13dNode) (handled int, died bool) {
	defer func() {
		if r := recover(); r != nil {
			if _, ok := r.(c13dDied); !ok {
				panic(r)
			}
			died = true
			if err := n.kill(); err != nil {
				c.t.Fatalf("kill: %v", err)
			}
		}
	}()
	ops, err := n.ops.GetOperations()
	if err != nil {
		c.t.Fatal(err)
	}
	ids := make([]string, 0, len(ops))
	for id := range ops {
		ids = append(ids, id)
	}
	sort.Strings(ids)
	for _, id := range ids {
		op := ops[id]
		handled++
		if fsm.State(op.Type) == spf.StateAwaitParticipantsConfirmations {
			if err := n.node.ApproveParticipation(&dto.OperationIdDTO{OperationID: id}); err != nil {
				c.t.Fatalf("%s: ApproveParticipation: %v", n.name, err)
			}
			continue
		}
		res, ok := n.results[id]
		if !ok {
			res, err = n.air.GetOperationResult(*op)
			if err != nil {
				c.t.Fatalf("%s: airgapped: %v", n.name, err)
			}
			n.results[id] = res
		}
		bz, _ := json.Marshal(res)
		var cp types.Operation
		_ = json.Unmarshal(bz, &cp)
		if err := n.node.ProcessOperation(&dto.OperationDTO{
			ID: cp.ID, Type: string(cp.Type), Payload: cp.Payload, ResultMsgs: cp.ResultMsgs, CreatedAt: cp.CreatedAt,
			DkgID: cp.DKGIdentifier, To: cp.To, Event: cp.Event, ExtraData: cp.ExtraData,
		}); err != nil {
			c.t.Fatalf("%s: ProcessOperation(%s): %v", n.name, cp.Type, err)
		}
	}
	return handled, false
}

// drive lets the running nodes and their operators work until nothing is left to do
func (c *c13dCluster) drive() {
	for round := 0; round < 40; round++ {
		c.poll()
		handled := 0
		for _, n := range c.nodes {
			if n.down {
				continue
			}
			k, _ := c.operate(n)
			handled += k
		}
		if handled == 0 {
			return
		}
	}
	c.t.Fatalf("the ceremony did not come to rest")
}

func (c *c13dCluster) startDKG(threshold int) {
	var participants []*requests.SignatureProposalParticipantsEntry
	for _, n := range c.nodes {
		pk, err := n.air.GetPubKey().MarshalBinary()
		if err != nil {
			c.t.Fatal(err)
		}
		participants = append(participants, &requests.SignatureProposalParticipantsEntry{Username: n.name, PubKey: n.kp.Pub, DkgPubKey: pk})
	}
	bz, err := json.Marshal(requests.SignatureProposalParticipantsListRequest{Participants: participants, SigningThreshold: threshold, CreatedAt: time.Now()})
	if err != nil {
		c.t.Fatal(err)
	}
	if err := c.nodes[0].node.StartDKG(&dto.StartDkgDTO{Payload: bz}); err != nil {
		c.t.Fatal(err)
	}
	msgs, err := c.nodes[0].stg.GetMessages(0)
	if err != nil || len(msgs) != 1 {
		c.t.Fatalf("board after StartDKG: %v %v", msgs, err)
	}
	c.dkgID = msgs[0].DkgRoundID
}

func (c *c13dCluster) states() string {
	var out []string
	for _, n := range c.nodes {
		if n.down {
			out = append(out, n.name+": down")
			continue
		}
		ops, _ := n.ops.GetOperations()
		out = append(out, fmt.Sprintf("%s: %s, %d operation(s) offered", n.name, n.fsmState(c.dkgID), len(ops)))
	}
	return strings.Join(out, "; ")
}

func (c *c13dCluster) allIdle() bool {
	for _, n := range c.nodes {
		if n.fsmState(c.dkgID) != string(sif.StateSigningIdle) {
			return false
		}
	}
	return true
}

// Control: the same three nodes, driven the same way, finish the key generation when nobody dies.
func TestC13DealsControlNoCrash(t *testing.T) {
	c := c13dNewCluster(t, 3)
	defer c.stop()
	c.startDKG(2)
	c.drive()
	if !c.allIdle() {
		t.Fatalf("control run: key generation did not finish: %s", c.states())
	}
	t.Logf("control: %s", c.states())
}

// Witness: node_2 dies inside ProcessOperation while its deals are being posted: the deal for one of the other
// participants is on the board, the remaining ones are not. While node_2 is down the others keep working. Then node_2 is
// restarted on its state directory, its operator gives the (still offered) operation's answer again, and everybody works
// until nothing is left to do. The key generation must finish as it does without the crash.
func TestC13NodeDiesWhilePostingItsDeals(t *testing.T) {
	c := c13dNewCluster(t, 3)
	defer c.stop()
	victim := c.nodes[2]

	var posted []string
	victim.die = func(sent storage.Message) bool {
		if sent.Event != string(dpf.EventDKGDealConfirmationReceived) {
			return false
		}
		posted = append(posted, sent.RecipientAddr)
		// dead as soon as the first deal meant for another participant is on the board
		return sent.RecipientAddr != victim.name
	}
	victim.stg.(*c13dBoard).die = victim.die

	c.startDKG(2)
	c.drive() // node_2 dies on the way, node_0 and node_1 go on as far as they can
	if !victim.down {
		t.Fatalf("setup: the victim did not die while posting its deals: %s", c.states())
	}
	t.Logf("node_2 died after posting its deals for %v only; the others came to rest at: %s", posted, c.states())

	// restart on the same state directory
	victim.die = nil
	if err := victim.start(); err != nil {
		t.Fatalf("restart: %v", err)
	}
	ops, err := victim.ops.GetOperations()
	if err != nil {
		t.Fatal(err)
	}
	if len(ops) != 1 {
		t.Fatalf("after the restart node_2 offers %d operations, expected the deals operation to be still pending", len(ops))
	}
	c.drive()

	for _, n := range c.nodes {
		for _, l := range n.logger.lines {
			if strings.HasPrefix(l, "Failed to process message") && strings.Contains(l, "failed to Do operation in FSM") {
				if len(l) > 160 {
					l = l[:160] + "..."
				}
				t.Logf("%s refused: %s", n.name, l)
			}
		}
	}
	if !c.allIdle() {
		t.Fatalf("C13 violated: node_2 died between two appends of its deals and was restarted on the same state directory; "+
			"its operation was still offered and was answered again, every node consumed the whole board and no operation is left, "+
			"but the key generation can not finish: %s", c.states())
	}
}
