package node

// C03 witness 2: message identifiers and batch identifiers are not unique across proposals.
// A later proposal may use the identifiers of a batch which is already signed; the placeholder entries
// which processSignatureProposal stores for it replace or shadow the payload kept next to the signature.

import (
	"bytes"
	"context"
	"crypto/ed25519"
	"crypto/sha256"
	"encoding/hex"
	"encoding/json"
	"fmt"
	"path/filepath"
	"sync"
	"testing"
	"time"

	"github.com/google/uuid"
	"github.com/lidofinance/dc4bc/airgapped"
	"github.com/lidofinance/dc4bc/client/api/dto"
	"github.com/lidofinance/dc4bc/client/config"
	"github.com/lidofinance/dc4bc/client/modules/keystore"
	"github.com/lidofinance/dc4bc/client/modules/state"
	oprepo "github.com/lidofinance/dc4bc/client/repositories/operation"
	sigrepo "github.com/lidofinance/dc4bc/client/repositories/signature"
	"github.com/lidofinance/dc4bc/client/services"
	"github.com/lidofinance/dc4bc/client/services/fsmservice"
	"github.com/lidofinance/dc4bc/client/services/operation"
	"github.com/lidofinance/dc4bc/client/services/signature"
	"github.com/lidofinance/dc4bc/client/types"
	"github.com/lidofinance/dc4bc/fsm/fsm"
	spf "github.com/lidofinance/dc4bc/fsm/state_machines/signature_proposal_fsm"
	sif "github.com/lidofinance/dc4bc/fsm/state_machines/signing_proposal_fsm"
	"github.com/lidofinance/dc4bc/fsm/types/requests"
	"github.com/lidofinance/dc4bc/pkg/utils"
	"github.com/lidofinance/dc4bc/storage"
)

func fbNoSigning(_ *fbHNode, op *types.Operation) bool {
	return op.IsSigningState()
}

// batch-1 {m1: X} is proposed, signed by everybody and reconstructed. Then a participant which did not propose batch-1
// proposes batch-2 which uses the identifier m1 again, with another payload. Nobody signs batch-2.
// Asking an honest node for "the signature m1" must keep answering with the payload proposed and signed under m1.
func TestC03_IdentifierReusedByLaterBatch(t *testing.T) {
	net := newFbHNet(t, 3)
	dkgID := net.runDKG(2)
	honest, proposer, byz := net.nodes[0], net.nodes[1], net.nodes[2]

	proposed := []byte("the payload which was proposed and signed")
	b1, _ := json.Marshal(requests.SigningBatchProposalStartRequest{
		BatchID: "batch-1", ParticipantId: net.idOf(proposer), CreatedAt: time.Now(),
		SigningTasks: []requests.SigningTask{{MessageID: "m1", File: "m1.txt", Payload: proposed}},
	})
	net.post(proposer, sif.EventSigningStart, b1)
	net.settle(nil)

	before, err := honest.sigSvc.GetSignatureByID(&dto.SignatureByIdDTO{DkgID: dkgID, ID: "m1"})
	if err != nil || len(before) != 3 || !bytes.Equal(before[0].SrcPayload, proposed) || len(before[0].Signature) == 0 {
		t.Fatalf("setup: batch-1 is not signed: %v %+v", err, before)
	}

	b2, _ := json.Marshal(requests.SigningBatchProposalStartRequest{
		BatchID: "batch-2", ParticipantId: net.idOf(byz), CreatedAt: time.Now(),
		SigningTasks: []requests.SigningTask{{MessageID: "m1", File: "other.txt", Payload: []byte("another payload")}},
	})
	net.post(byz, sif.EventSigningStart, b2)
	net.settle(fbNoSigning)

	for i := 0; i < 200; i++ {
		got, err := honest.sigSvc.GetSignatureByID(&dto.SignatureByIdDTO{DkgID: dkgID, ID: "m1"})
		if err != nil {
			t.Fatal(err)
		}
		if !bytes.Equal(got[0].SrcPayload, proposed) {
			t.Fatalf("query %d: %s answers for m1 with the payload %q of file %q and signature %q (entry of %s, batch %s); "+
				"signed under m1: %q", i, honest.name, got[0].SrcPayload, got[0].File, got[0].Signature, got[0].Username, got[0].BatchID, proposed)
		}
	}
}

// The proposer of batch-1 proposes the same batch identifier and message identifier once more, with another payload.
// Nobody signs. The export of batch-1 must still hold the payload which was signed, next to its signature.
func TestC03_BatchReproposedByItsProposer(t *testing.T) {
	net := newFbHNet(t, 3)
	dkgID := net.runDKG(2)
	honest, proposer := net.nodes[0], net.nodes[1]

	proposed := []byte("the payload which was proposed and signed")
	b1, _ := json.Marshal(requests.SigningBatchProposalStartRequest{
		BatchID: "batch-1", ParticipantId: net.idOf(proposer), CreatedAt: time.Now(),
		SigningTasks: []requests.SigningTask{{MessageID: "m1", File: "m1.txt", Payload: proposed}},
	})
	net.post(proposer, sif.EventSigningStart, b1)
	net.settle(nil)

	stored, err := honest.sigSvc.GetSignaturesByBatchID(&dto.SignaturesByBatchIdDTO{DkgID: dkgID, BatchID: "batch-1"})
	if err != nil {
		t.Fatal(err)
	}
	exported, err := utils.PrepareSignaturesToDump(stored)
	if err != nil {
		t.Fatal(err)
	}
	signedExport := (*exported)["m1"]
	if !bytes.Equal(signedExport.Payload, proposed) || len(signedExport.Signature) == 0 {
		t.Fatalf("setup: batch-1 is not signed: %+v", signedExport)
	}

	b1again, _ := json.Marshal(requests.SigningBatchProposalStartRequest{
		BatchID: "batch-1", ParticipantId: net.idOf(proposer), CreatedAt: time.Now(),
		SigningTasks: []requests.SigningTask{{MessageID: "m1", File: "other.txt", Payload: []byte("another payload")}},
	})
	net.post(proposer, sif.EventSigningStart, b1again)
	net.settle(fbNoSigning)

	stored, err = honest.sigSvc.GetSignaturesByBatchID(&dto.SignaturesByBatchIdDTO{DkgID: dkgID, BatchID: "batch-1"})
	if err != nil {
		t.Fatal(err)
	}
	exported, err = utils.PrepareSignaturesToDump(stored)
	if err != nil {
		t.Fatal(err)
	}
	got := (*exported)["m1"]
	if !bytes.Equal(got.Payload, proposed) || !bytes.Equal(got.Signature, signedExport.Signature) {
		t.Errorf("%s exported for batch-1/m1 the payload %q with a signature of %d bytes; after a proposal nobody signed it exports %q of file %q with a signature of %d bytes",
			honest.name, signedExport.Payload, len(signedExport.Signature), got.Payload, got.File, len(got.Signature))
	}
}

// ---- in-process harness: n real nodes (real FSM, real stores) and n real airgapped machines around an in-memory board ----

// fbHBoard is an in-memory append-only bulletin board shared by all nodes of a test.
type fbHBoard struct {
	mu   sync.Mutex
	msgs []storage.Message
}

func (b *fbHBoard) Send(messages ...storage.Message) error {
	b.mu.Lock()
	defer b.mu.Unlock()
	for _, m := range messages {
		m.Offset = uint64(len(b.msgs))
		b.msgs = append(b.msgs, m)
	}
	return nil
}

func (b *fbHBoard) GetMessages(offset uint64) ([]storage.Message, error) {
	b.mu.Lock()
	defer b.mu.Unlock()
	if offset >= uint64(len(b.msgs)) {
		return nil, nil
	}
	out := make([]storage.Message, len(b.msgs)-int(offset))
	copy(out, b.msgs[offset:])
	return out, nil
}
func (b *fbHBoard) Close() error                            { return nil }
func (b *fbHBoard) IgnoreMessages(_ []string, _ bool) error { return nil }
func (b *fbHBoard) UnignoreMessages()                       {}
func (b *fbHBoard) len() int                                { b.mu.Lock(); defer b.mu.Unlock(); return len(b.msgs) }
func (b *fbHBoard) at(i int) storage.Message                { b.mu.Lock(); defer b.mu.Unlock(); return b.msgs[i] }

type fbHLogger struct {
	t    *testing.T
	name string
	mu   sync.Mutex
	logs []string
}

func (l *fbHLogger) Log(format string, args ...interface{}) {
	l.mu.Lock()
	defer l.mu.Unlock()
	l.logs = append(l.logs, fmt.Sprintf("[%s] %s", l.name, fmt.Sprintf(format, args...)))
}

type fbHNode struct {
	name    string
	svc     *BaseNodeService
	keyPair *keystore.KeyPair
	air     *airgapped.Machine
	opSvc   operation.OperationService
	sigSvc  signature.SignatureService
	fsmSvc  fsmservice.FSMService
	log     *fbHLogger
	seen    int
	// hook to tamper with / observe a signing operation before it is given to the airgapped machine
	signedOps []types.Operation
}

type fbHNet struct {
	t     *testing.T
	board *fbHBoard
	nodes []*fbHNode
	dkgID string
}

func newFbHNet(t *testing.T, n int) *fbHNet {
	t.Helper()
	dir := t.TempDir()
	net := &fbHNet{t: t, board: &fbHBoard{}}
	for i := 0; i < n; i++ {
		name := fmt.Sprintf("node_%d", i)
		st, err := state.NewLevelDBState(filepath.Join(dir, name+"_state"), "topic")
		if err != nil {
			t.Fatalf("state: %v", err)
		}
		ks, err := keystore.NewLevelDBKeyStore(name, filepath.Join(dir, name+"_ks"))
		if err != nil {
			t.Fatalf("keystore: %v", err)
		}
		kp := keystore.NewKeyPair()
		if err := ks.PutKeys(name, kp); err != nil {
			t.Fatalf("putkeys: %v", err)
		}
		air, err := airgapped.NewMachine(filepath.Join(dir, name+"_air"))
		if err != nil {
			t.Fatalf("airgapped: %v", err)
		}
		air.SetEncryptionKey([]byte("very_strong_password"))
		if err := air.InitKeys(); err != nil {
			t.Fatalf("initkeys: %v", err)
		}
		opRepo, err := oprepo.NewOperationRepo(st, "topic")
		if err != nil {
			t.Fatalf("oprepo: %v", err)
		}
		opSvc := operation.NewOperationService(opRepo)
		sigSvc := signature.NewSignatureService(sigrepo.NewSignatureRepo(st))
		fsmSvc := fsmservice.NewFSMService(st, net.board, "")
		lg := &fbHLogger{t: t, name: name}
		sp := services.ServiceProvider{}
		sp.SetLogger(lg)
		sp.SetState(st)
		sp.SetKeyStore(ks)
		sp.SetStorage(net.board)
		sp.SetFSMService(fsmSvc)
		sp.SetOperationService(opSvc)
		sp.SetSignatureService(sigSvc)
		cfg := config.Config{Username: name, KafkaStorageConfig: &config.KafkaStorageConfig{Topic: "topic"}}
		svc, err := NewNode(context.Background(), &cfg, &sp)
		if err != nil {
			t.Fatalf("newnode: %v", err)
		}
		net.nodes = append(net.nodes, &fbHNode{name: name, svc: svc.(*BaseNodeService), keyPair: kp, air: air,
			opSvc: opSvc, sigSvc: sigSvc, fsmSvc: fsmSvc, log: lg})
	}
	return net
}

// deliver feeds every node the board messages it has not seen yet (what Poll does).
func (net *fbHNet) deliver() bool {
	progressed := false
	for _, n := range net.nodes {
		for n.seen < net.board.len() {
			m := net.board.at(n.seen)
			n.seen++
			progressed = true
			if m.RecipientAddr == "" || m.RecipientAddr == n.name {
				if err := n.svc.ProcessMessage(m); err != nil {
					n.log.Log("Failed to process message with offset %d: %v", m.Offset, err)
				}
			}
		}
	}
	return progressed
}

// operate lets every operator carry the pending operations to the airgapped machine and back.
// skip(node, op) == true leaves the operation pending.
func (net *fbHNet) operate(skip func(n *fbHNode, op *types.Operation) bool) bool {
	progressed := false
	for _, n := range net.nodes {
		ops, err := n.opSvc.GetOperations()
		if err != nil {
			net.t.Fatalf("GetOperations: %v", err)
		}
		for _, op := range ops {
			if skip != nil && skip(n, op) {
				continue
			}
			progressed = true
			if fsm.State(op.Type) == spf.StateAwaitParticipantsConfirmations {
				if err := n.svc.ApproveParticipation(&dto.OperationIdDTO{OperationID: op.ID}); err != nil {
					net.t.Fatalf("approve: %v", err)
				}
				continue
			}
			if fsm.State(op.Type) == sif.StateSigningAwaitPartialSigns {
				n.signedOps = append(n.signedOps, *op)
			}
			res, err := n.air.GetOperationResult(*op)
			if err != nil {
				net.t.Fatalf("airgapped: %v", err)
			}
			if err := n.svc.ProcessOperation(&dto.OperationDTO{ID: res.ID, Type: string(res.Type), Payload: res.Payload,
				ResultMsgs: res.ResultMsgs, CreatedAt: res.CreatedAt, DkgID: res.DKGIdentifier, To: res.To, Event: res.Event,
				ExtraData: res.ExtraData}); err != nil {
				n.log.Log("ProcessOperation failed: %v", err)
			}
		}
	}
	return progressed
}

func (net *fbHNet) settle(skip func(n *fbHNode, op *types.Operation) bool) {
	for i := 0; i < 200; i++ {
		a := net.deliver()
		b := net.operate(skip)
		if !a && !b {
			return
		}
	}
	net.t.Fatalf("network does not settle")
}

func (net *fbHNet) runDKG(threshold int) string {
	var participants []*requests.SignatureProposalParticipantsEntry
	for _, n := range net.nodes {
		pk, err := n.air.GetPubKey().MarshalBinary()
		if err != nil {
			net.t.Fatalf("pubkey: %v", err)
		}
		participants = append(participants, &requests.SignatureProposalParticipantsEntry{
			Username: n.name, PubKey: n.keyPair.Pub, DkgPubKey: pk})
	}
	bz, err := json.Marshal(requests.SignatureProposalParticipantsListRequest{
		Participants: participants, SigningThreshold: threshold, CreatedAt: time.Now()})
	if err != nil {
		net.t.Fatal(err)
	}
	if err := net.nodes[0].svc.StartDKG(&dto.StartDkgDTO{Payload: bz}); err != nil {
		net.t.Fatalf("startdkg: %v", err)
	}
	h := sha256.Sum256(bz)
	net.dkgID = hex.EncodeToString(h[:])
	net.settle(nil)
	for _, n := range net.nodes {
		inst, err := n.fsmSvc.GetFSMInstance(net.dkgID, false)
		if err != nil {
			net.t.Fatalf("fsm: %v", err)
		}
		st, _ := inst.State()
		if st != sif.StateSigningIdle {
			for _, l := range n.log.logs {
				net.t.Log(l)
			}
			net.t.Fatalf("%s: DKG did not finish, state %s", n.name, st)
		}
	}
	return net.dkgID
}

// post puts a message signed by the given participant on the board (what any registered participant can do).
func (net *fbHNet) post(from *fbHNode, event fsm.Event, data []byte) {
	m := storage.Message{ID: uuid.New().String(), DkgRoundID: net.dkgID, Event: string(event), Data: data, SenderAddr: from.name}
	m.Signature = ed25519.Sign(from.keyPair.Priv, m.Bytes())
	if err := net.board.Send(m); err != nil {
		net.t.Fatal(err)
	}
}

func (net *fbHNet) idOf(n *fbHNode) int {
	inst, err := n.fsmSvc.GetFSMInstance(net.dkgID, false)
	if err != nil {
		net.t.Fatal(err)
	}
	id, err := inst.GetIDByUsername(n.name)
	if err != nil {
		net.t.Fatal(err)
	}
	return id
}

func (net *fbHNet) dumpLogs() {
	for _, n := range net.nodes {
		for _, l := range n.log.logs {
			net.t.Log(l)
		}
	}
}
