package node

import (
	"context"
	"crypto/ed25519"
	"encoding/json"
	"path/filepath"
	"strings"
	"sync"
	"testing"
	"time"

	"github.com/google/uuid"
	"github.com/stretchr/testify/require"

	"github.com/lidofinance/dc4bc/client/api/dto"
	"github.com/lidofinance/dc4bc/client/config"
	"github.com/lidofinance/dc4bc/client/modules/keystore"
	"github.com/lidofinance/dc4bc/client/modules/logger"
	"github.com/lidofinance/dc4bc/client/modules/state"
	oprepo "github.com/lidofinance/dc4bc/client/repositories/operation"
	"github.com/lidofinance/dc4bc/client/services"
	"github.com/lidofinance/dc4bc/client/services/fsmservice"
	"github.com/lidofinance/dc4bc/client/services/operation"
	fsmconfig "github.com/lidofinance/dc4bc/fsm/config"
	spf "github.com/lidofinance/dc4bc/fsm/state_machines/signature_proposal_fsm"
	"github.com/lidofinance/dc4bc/fsm/types/requests"
	"github.com/lidofinance/dc4bc/storage"
)

// c05aBoard is an in-memory append-only bulletin board
type c05aBoard struct {
	mu       sync.Mutex
	messages []storage.Message
}

func (b *c05aBoard) Send(messages ...storage.Message) error {
	b.mu.Lock()
	defer b.mu.Unlock()
	for _, m := range messages {
		m.Offset = uint64(len(b.messages))
		b.messages = append(b.messages, m)
	}
	return nil
}

func (b *c05aBoard) GetMessages(offset uint64) ([]storage.Message, error) {
	b.mu.Lock()
	defer b.mu.Unlock()
	if offset >= uint64(len(b.messages)) {
		return nil, nil
	}
	return append([]storage.Message(nil), b.messages[offset:]...), nil
}
func (b *c05aBoard) Close() error                        { return nil }
func (b *c05aBoard) IgnoreMessages([]string, bool) error { return nil }
func (b *c05aBoard) UnignoreMessages()                   {}

func c05aNewNode(t *testing.T, userName string, keyPair *keystore.KeyPair, board storage.Storage) (*BaseNodeService, *services.ServiceProvider) {
	dir := t.TempDir()
	topic := "topic"

	st, err := state.NewLevelDBState(filepath.Join(dir, "state_"+userName), topic)
	require.NoError(t, err)
	ks, err := keystore.NewLevelDBKeyStore(userName, filepath.Join(dir, "keys_"+userName))
	require.NoError(t, err)
	require.NoError(t, ks.(*keystore.LevelDBKeyStore).PutKeys(userName, keyPair))
	opRepo, err := oprepo.NewOperationRepo(st, topic)
	require.NoError(t, err)

	sp := &services.ServiceProvider{}
	sp.SetLogger(logger.NewLogger(userName))
	sp.SetState(st)
	sp.SetKeyStore(ks)
	sp.SetStorage(board)
	sp.SetFSMService(fsmservice.NewFSMService(st, board, topic))
	sp.SetOperationService(operation.NewOperationService(opRepo))

	n, err := NewNode(context.Background(), &config.Config{
		Username:           userName,
		KafkaStorageConfig: &config.KafkaStorageConfig{Topic: topic},
	}, sp)
	require.NoError(t, err)
	return n.(*BaseNodeService), sp
}

// C05: "an expired deadline ... puts the round into a cancelled state".
//
// The invitation was created (and received by the node) eight days ago, the confirmation deadline
// (fsm/config.SignatureProposalConfirmationDeadline) is seven days. The operator approves the participation only
// today, through the ordinary API call. The confirmation the node posts must therefore be a late one and the round
// must end in a cancelled state on every node that reads it. Instead the node stamps the confirmation with the time
// the invitation operation was created, so a confirmation given after the deadline is indistinguishable from a
// timely one, the round goes on and can become signing-ready.
func TestC05_ApprovalGivenAfterTheDeadlineIsNotLate(t *testing.T) {
	req := require.New(t)
	board := &c05aBoard{}

	aliceKeys, bobKeys := keystore.NewKeyPair(), keystore.NewKeyPair()
	alice, aliceSP := c05aNewNode(t, "alice", aliceKeys, board)

	now := time.Now()
	invitedAt := now.Add(-8 * 24 * time.Hour) // deadline: invitedAt + 7 days = yesterday
	req.True(invitedAt.Add(fsmconfig.SignatureProposalConfirmationDeadline).Before(now), "test setup: the deadline must be over")

	const dkgRoundID = "c05-late-approval-round"
	initBz, err := json.Marshal(requests.SignatureProposalParticipantsListRequest{
		Participants: []*requests.SignatureProposalParticipantsEntry{
			{Username: "alice", PubKey: aliceKeys.Pub, DkgPubKey: make([]byte, 32)},
			{Username: "bob", PubKey: bobKeys.Pub, DkgPubKey: make([]byte, 32)},
		},
		SigningThreshold: 2,
		CreatedAt:        invitedAt,
	})
	req.NoError(err)
	initMsg := storage.Message{ID: uuid.New().String(), DkgRoundID: dkgRoundID, Event: string(spf.EventInitProposal), Data: initBz, SenderAddr: "bob"}
	initMsg.Signature = ed25519.Sign(bobKeys.Priv, initMsg.Bytes())

	// Eight days ago: the node read the invitation from the board and queued the operation for its operator.
	// (what ProcessMessage does, with the clock of that day: the operation is created a minute after the invitation)
	invitation, err := alice.processMessage(initMsg)
	req.NoError(err)
	req.NotNil(invitation)
	invitation.CreatedAt = invitedAt.Add(time.Minute)
	req.NoError(aliceSP.GetOperationService().PutOperation(invitation))

	// Today, one day after the deadline: the operator approves the participation
	req.NoError(alice.ApproveParticipation(&dto.OperationIdDTO{OperationID: invitation.ID}))

	posted, err := board.GetMessages(0)
	req.NoError(err)
	req.Len(posted, 1)
	req.Equal(string(spf.EventConfirmSignatureProposal), posted[0].Event)

	// every node reads the confirmation from the board
	req.NoError(alice.ProcessMessage(posted[0]))

	dump, err := aliceSP.GetFSMService().GetFSMDump(&dto.DkgIdDTO{DkgID: dkgRoundID})
	req.NoError(err)

	var confirmation requests.SignatureProposalParticipantRequest
	req.NoError(json.Unmarshal(posted[0].Data, &confirmation))
	t.Logf("invitation created at %s, deadline %s, approval given at %s, approval stamped %s, round state %s",
		invitedAt.Format(time.RFC3339), dump.Payload.SignatureProposalPayload.ExpiresAt.Format(time.RFC3339),
		now.Format(time.RFC3339), confirmation.CreatedAt.Format(time.RFC3339), dump.State)

	if !strings.Contains(string(dump.State), "canceled") {
		t.Fatalf("the participation was approved on %s, after the deadline %s, but the round is not cancelled: state %q, "+
			"alice's status %q (the confirmation was stamped %s, the creation time of the invitation operation)",
			now.Format(time.RFC3339), dump.Payload.SignatureProposalPayload.ExpiresAt.Format(time.RFC3339), dump.State,
			dump.Payload.SignatureProposalPayload.Quorum[0].Status, confirmation.CreatedAt.Format(time.RFC3339))
	}
}
