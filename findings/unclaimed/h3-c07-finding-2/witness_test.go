package node

// C07 witness 2: the error answer of a signing operation names no batch. The (late) error answer a slow participant
// gives to an already finished batch is booked on the batch that is in progress when it reaches the board: the
// participant is marked as failed there, its correct answer to that batch is refused afterwards, and a batch that is
// answered correctly by t participants is never reconstructed.

import (
	"context"
	"crypto/ed25519"
	"encoding/hex"
	"encoding/json"
	"fmt"
	"path/filepath"
	"strings"
	"sync"
	"testing"
	"time"

	"github.com/corestario/kyber/pairing"
	"github.com/corestario/kyber/pairing/bls12381"
	"github.com/corestario/kyber/share"
	"github.com/corestario/kyber/sign/bls"
	"github.com/corestario/kyber/sign/tbls"
	"github.com/google/uuid"

	"github.com/lidofinance/dc4bc/client/api/dto"
	"github.com/lidofinance/dc4bc/client/config"
	"github.com/lidofinance/dc4bc/client/modules/keystore"
	"github.com/lidofinance/dc4bc/client/modules/state"
	oprepo "github.com/lidofinance/dc4bc/client/repositories/operation"
	sigrepo "github.com/lidofinance/dc4bc/client/repositories/signature"
	"github.com/lidofinance/dc4bc/client/services"
	"github.com/lidofinance/dc4bc/client/services/fsmservice"
	"github.com/lidofinance/dc4bc/client/services/operation"
	"github.com/lidofinance/dc4bc/client/services/signature"
	"github.com/lidofinance/dc4bc/client/types"
	"github.com/lidofinance/dc4bc/dkg"
	"github.com/lidofinance/dc4bc/fsm/fsm"
	dpf "github.com/lidofinance/dc4bc/fsm/state_machines/dkg_proposal_fsm"
	spf "github.com/lidofinance/dc4bc/fsm/state_machines/signature_proposal_fsm"
	sif "github.com/lidofinance/dc4bc/fsm/state_machines/signing_proposal_fsm"
	"github.com/lidofinance/dc4bc/fsm/types/requests"
	"github.com/lidofinance/dc4bc/fsm/types/responses"
	"github.com/lidofinance/dc4bc/storage"
)

// ---------------------------------------------------------------------------------------------------------------
// harness: n real nodes (real FSM service, operation pool, signature store on LevelDB) polling one in-memory board
// ---------------------------------------------------------------------------------------------------------------

type f2Board struct {
	mu   sync.Mutex
	msgs []storage.Message
}

func (b *f2Board) Send(messages ...storage.Message) error {
	b.mu.Lock()
	defer b.mu.Unlock()
	for _, m := range messages {
		m.Offset = uint64(len(b.msgs))
		b.msgs = append(b.msgs, m)
	}
	return nil
}

func (b *f2Board) GetMessages(offset uint64) ([]storage.Message, error) {
	b.mu.Lock()
	defer b.mu.Unlock()
	if offset >= uint64(len(b.msgs)) {
		return nil, nil
	}
	out := make([]storage.Message, len(b.msgs)-int(offset))
	copy(out, b.msgs[offset:])
	return out, nil
}

func (b *f2Board) Close() error                            { return nil }
func (b *f2Board) IgnoreMessages(_ []string, _ bool) error { return nil }
func (b *f2Board) UnignoreMessages()                       {}
func (b *f2Board) length() int                             { b.mu.Lock(); defer b.mu.Unlock(); return len(b.msgs) }

type f2KeyStore struct{ kp *keystore.KeyPair }

func (k *f2KeyStore) PutKeys(string, *keystore.KeyPair) error            { return nil }
func (k *f2KeyStore) LoadKeys(string, string) (*keystore.KeyPair, error) { return k.kp, nil }

type f2Logger struct {
	t    *testing.T
	name string
}

func (l *f2Logger) Log(format string, args ...interface{}) {
	s := fmt.Sprintf(format, args...)
	if len(s) > 300 {
		s = s[:300] + "..."
	}
	l.t.Logf("[%s] %s", l.name, s)
}

type f2Node struct {
	name  string
	kp    *keystore.KeyPair
	svc   *BaseNodeService
	fsm   fsmservice.FSMService
	ops   operation.OperationService
	sigs  signature.SignatureService
	share *share.PriShare
}

type f2Cluster struct {
	t       *testing.T
	n, thr  int
	dkgID   string
	board   *f2Board
	nodes   []*f2Node
	suite   pairing.Suite
	pubPoly *share.PubPoly
	cancel  context.CancelFunc
}

func f2NewCluster(t *testing.T, n, thr int) *f2Cluster {
	t.Helper()
	ctx, cancel := context.WithCancel(context.Background())
	c := &f2Cluster{t: t, n: n, thr: thr, dkgID: strings.Repeat("c07e", 16), board: &f2Board{}, cancel: cancel}
	t.Cleanup(func() { cancel(); time.Sleep(1200 * time.Millisecond) })

	vssSuite := bls12381.NewBLS12381Suite(nil)
	c.suite = vssSuite.(pairing.Suite)
	priPoly := share.NewPriPoly(c.suite.G1(), thr, nil, vssSuite.RandomStream())
	c.pubPoly = priPoly.Commit(c.suite.G1().Point().Base())
	shares := priPoly.Shares(n)

	for i := 0; i < n; i++ {
		name := fmt.Sprintf("node_%d", i)
		st, err := state.NewLevelDBState(filepath.Join(t.TempDir(), "state"), "topic")
		if err != nil {
			t.Fatalf("state: %v", err)
		}
		opRepo, err := oprepo.NewOperationRepo(st, "topic")
		if err != nil {
			t.Fatalf("oprepo: %v", err)
		}
		kp := keystore.NewKeyPair()
		sp := services.ServiceProvider{}
		sp.SetLogger(&f2Logger{t: t, name: name})
		sp.SetState(st)
		sp.SetKeyStore(&f2KeyStore{kp: kp})
		sp.SetStorage(c.board)
		sp.SetFSMService(fsmservice.NewFSMService(st, c.board, "topic"))
		sp.SetOperationService(operation.NewOperationService(opRepo))
		sp.SetSignatureService(signature.NewSignatureService(sigrepo.NewSignatureRepo(st)))
		svc, err := NewNode(ctx, &config.Config{Username: name, KafkaStorageConfig: &config.KafkaStorageConfig{Topic: "topic"}}, &sp)
		if err != nil {
			t.Fatalf("NewNode: %v", err)
		}
		c.nodes = append(c.nodes, &f2Node{name: name, kp: kp, svc: svc.(*BaseNodeService), fsm: sp.GetFSMService(),
			ops: sp.GetOperationService(), sigs: sp.GetSignatureService(), share: shares[i]})
	}
	for _, nd := range c.nodes {
		nd := nd
		go func() { _ = nd.svc.Poll() }() // the real poller
	}
	return c
}

// post puts a message signed with the communication key of participant `from` on the board.
func (c *f2Cluster) post(from int, event fsm.Event, req interface{}, recipient string) {
	c.t.Helper()
	data, err := json.Marshal(req)
	if err != nil {
		c.t.Fatalf("marshal: %v", err)
	}
	m := storage.Message{ID: uuid.New().String(), DkgRoundID: c.dkgID, Event: string(event), Data: data,
		SenderAddr: c.nodes[from].name, RecipientAddr: recipient}
	m.Signature = ed25519.Sign(c.nodes[from].kp.Priv, m.Bytes())
	if err := c.board.Send(m); err != nil {
		c.t.Fatalf("send: %v", err)
	}
}

// quiesce waits until every poller has consumed the whole board and nobody appended anything meanwhile.
func (c *f2Cluster) quiesce() {
	c.t.Helper()
	deadline := time.Now().Add(40 * time.Second)
	for time.Now().Before(deadline) {
		l := c.board.length()
		all := true
		for _, nd := range c.nodes {
			off, err := nd.svc.GetStateOffset()
			if err != nil {
				c.t.Fatalf("offset: %v", err)
			}
			if int(off) < l {
				all = false
			}
		}
		if all && c.board.length() == l {
			return
		}
		time.Sleep(100 * time.Millisecond)
	}
	c.t.Fatalf("the pollers did not consume the board in time")
}

func (c *f2Cluster) fsmState(i int) fsm.State {
	c.t.Helper()
	inst, err := c.nodes[i].fsm.GetFSMInstance(c.dkgID, false)
	if err != nil {
		c.t.Fatalf("GetFSMInstance(%d): %v", i, err)
	}
	s, err := inst.State()
	if err != nil {
		c.t.Fatalf("State(%d): %v", i, err)
	}
	return s
}

// runDKG drives the round through the key generation with the real board messages (the DKG payloads themselves are
// opaque to the nodes); the announced public polynomial belongs to the shares the participants sign with.
func (c *f2Cluster) runDKG() {
	c.t.Helper()
	now := time.Now()
	var parts []*requests.SignatureProposalParticipantsEntry
	for _, nd := range c.nodes {
		parts = append(parts, &requests.SignatureProposalParticipantsEntry{Username: nd.name, PubKey: nd.kp.Pub, DkgPubKey: make([]byte, 48)})
	}
	c.post(0, spf.EventInitProposal, requests.SignatureProposalParticipantsListRequest{Participants: parts, SigningThreshold: c.thr, CreatedAt: now}, "")
	for i := range c.nodes {
		c.post(i, spf.EventConfirmSignatureProposal, requests.SignatureProposalParticipantRequest{ParticipantId: i, CreatedAt: now}, "")
	}
	for i := range c.nodes {
		c.post(i, dpf.EventDKGCommitConfirmationReceived, requests.DKGProposalCommitConfirmationRequest{ParticipantId: i, Commit: []byte("commit"), CreatedAt: now}, "")
	}
	for i := range c.nodes {
		c.post(i, dpf.EventDKGDealConfirmationReceived, requests.DKGProposalDealConfirmationRequest{ParticipantId: i, Deal: []byte("deal"), CreatedAt: now}, "")
	}
	for i := range c.nodes {
		c.post(i, dpf.EventDKGResponseConfirmationReceived, requests.DKGProposalResponseConfirmationRequest{ParticipantId: i, Response: []byte("response"), CreatedAt: now}, "")
	}
	pubPolyBz, err := (&dkg.BLSKeyring{PubPoly: c.pubPoly}).PubPolyBytes()
	if err != nil {
		c.t.Fatalf("PubPolyBytes: %v", err)
	}
	masterKey, err := c.pubPoly.Commit().MarshalBinary()
	if err != nil {
		c.t.Fatalf("master key: %v", err)
	}
	for i := range c.nodes {
		c.post(i, dpf.EventDKGMasterKeyConfirmationReceived, requests.DKGProposalMasterKeyConfirmationRequest{ParticipantId: i, MasterKey: masterKey, PubPolyBz: pubPolyBz, CreatedAt: now}, "")
	}
	c.quiesce()
	for i := range c.nodes {
		if s := c.fsmState(i); s != sif.StateSigningIdle {
			c.t.Fatalf("setup: node %d is in %s after the key generation, want %s", i, s, sif.StateSigningIdle)
		}
	}
}

// propose lets node `from` propose a batch through the real API entry point and returns the batch id.
func (c *f2Cluster) propose(from int, files map[string][]byte) string {
	c.t.Helper()
	before := c.board.length()
	rawID, err := hex.DecodeString(c.dkgID)
	if err != nil {
		c.t.Fatalf("setup: %v", err)
	}
	if err := c.nodes[from].svc.ProposeSignMessages(&dto.ProposeSignBatchMessagesDTO{DkgID: rawID, Data: files}); err != nil {
		c.t.Fatalf("ProposeSignMessages: %v", err)
	}
	msgs, _ := c.board.GetMessages(uint64(before))
	for _, m := range msgs {
		if fsm.Event(m.Event) == sif.EventSigningStart {
			var req requests.SigningBatchProposalStartRequest
			if err := json.Unmarshal(m.Data, &req); err != nil {
				c.t.Fatalf("proposal: %v", err)
			}
			if m.DkgRoundID != c.dkgID {
				c.t.Fatalf("setup: proposal posted for round %q, want %q", m.DkgRoundID, c.dkgID)
			}
			return req.BatchID
		}
	}
	c.t.Fatalf("setup: no proposal on the board")
	return ""
}

// pendingSigningOperation returns the not-yet-answered signing request of node i for the batch.
func (c *f2Cluster) pendingSigningOperation(i int, batchID string) *types.Operation {
	c.t.Helper()
	ops, err := c.nodes[i].ops.GetOperations()
	if err != nil {
		c.t.Fatalf("GetOperations: %v", err)
	}
	for _, op := range ops {
		if fsm.State(op.Type) != sif.StateSigningAwaitPartialSigns {
			continue
		}
		var payload responses.SigningPartialSignsParticipantInvitationsResponse
		if err := json.Unmarshal(op.Payload, &payload); err != nil {
			c.t.Fatalf("operation payload: %v", err)
		}
		if payload.BatchID == batchID {
			return op
		}
	}
	return nil
}

// answerHonestly does what the airgapped machine does for the pending signing operation of node i (partial signatures
// of every message of the batch with the participant's key share) and hands the result to the node as the operator would.
func (c *f2Cluster) answerHonestly(i int, batchID string) {
	c.t.Helper()
	op := c.pendingSigningOperation(i, batchID)
	if op == nil {
		c.t.Fatalf("node %d has no pending signing operation for batch %s", i, batchID)
	}
	var payload responses.SigningPartialSignsParticipantInvitationsResponse
	if err := json.Unmarshal(op.Payload, &payload); err != nil {
		c.t.Fatalf("operation payload: %v", err)
	}
	var tasks []requests.SigningTask
	if err := json.Unmarshal(payload.SrcPayload, &tasks); err != nil {
		c.t.Fatalf("tasks: %v", err)
	}
	msgs, err := requests.TasksToMessages(tasks)
	if err != nil {
		c.t.Fatalf("TasksToMessages: %v", err)
	}
	var signs []requests.PartialSign
	for _, m := range msgs {
		s, err := tbls.Sign(c.suite, c.nodes[i].share, m.Payload)
		if err != nil {
			c.t.Fatalf("tbls.Sign: %v", err)
		}
		signs = append(signs, requests.PartialSign{MessageID: m.MessageID, Sign: s})
	}
	reqBz, err := json.Marshal(requests.SigningProposalBatchPartialSignRequests{BatchID: payload.BatchID, ParticipantId: i, PartialSigns: signs, CreatedAt: op.CreatedAt})
	if err != nil {
		c.t.Fatalf("marshal: %v", err)
	}
	err = c.nodes[i].svc.ProcessOperation(&dto.OperationDTO{ID: op.ID, Type: string(op.Type), Payload: op.Payload, CreatedAt: op.CreatedAt,
		DkgID: op.DKGIdentifier, Event: sif.EventSigningPartialSignReceived,
		ResultMsgs: []storage.Message{{Event: string(sif.EventSigningPartialSignReceived), Data: reqBz, DkgRoundID: op.DKGIdentifier}}})
	if err != nil {
		c.t.Fatalf("ProcessOperation(node %d): %v", i, err)
	}
}

// validSignatures returns, per message id of the batch, whether node i stores a signature that verifies under the group key.
func (c *f2Cluster) validSignatures(i int, batchID string) map[string]bool {
	c.t.Helper()
	stored, err := c.nodes[i].sigs.GetSignaturesByBatchID(&dto.SignaturesByBatchIdDTO{DkgID: c.dkgID, BatchID: batchID})
	if err != nil {
		c.t.Fatalf("GetSignaturesByBatchID: %v", err)
	}
	out := make(map[string]bool)
	for msgID, list := range stored {
		out[msgID] = false
		for _, s := range list {
			if len(s.Signature) != 0 && bls.Verify(c.suite, c.pubPoly.Commit(), s.SrcPayload, s.Signature) == nil {
				out[msgID] = true
			}
		}
	}
	return out
}

// assertBatchDone checks the promise of C07 for one batch on every node.
func (c *f2Cluster) assertBatchDone(batchID string, messages int) {
	c.t.Helper()
	for i := range c.nodes {
		valid := c.validSignatures(i, batchID)
		good := 0
		for _, ok := range valid {
			if ok {
				good++
			}
		}
		if len(valid) != messages || good != messages {
			c.t.Errorf("C07 violated: node %d stores a valid reconstructed signature for %d of the %d messages of batch %s", i, good, messages, batchID)
		}
		if s := c.fsmState(i); s != sif.StateSigningIdle {
			c.t.Errorf("C07 violated: node %d is in %s after batch %s, want %s", i, s, batchID, sif.StateSigningIdle)
		}
	}
}

// ---------------------------------------------------------------------------------------------------------------

// Control: the same schedule without the stale error answer goes through.
func TestC07F2_Control_SecondBatchWithoutStaleError(t *testing.T) {
	c := f2NewCluster(t, 3, 2)
	c.runDKG()
	b1 := c.propose(1, map[string][]byte{"a.txt": []byte("message a")})
	c.quiesce()
	c.answerHonestly(0, b1)
	c.answerHonestly(1, b1)
	c.quiesce()
	c.assertBatchDone(b1, 1)
	b2 := c.propose(1, map[string][]byte{"b.txt": []byte("message b")})
	c.quiesce()
	c.answerHonestly(1, b2)
	c.answerHonestly(2, b2)
	c.quiesce()
	c.assertBatchDone(b2, 1)
}

// n=3, t=2.
// Batch 1 is signed by participants 0 and 1 and finished everywhere. Participant 2 is slow; its airgapped machine could
// not sign batch 1 (e.g. the keyring could not be decrypted) and produced what the airgapped machine produces in that
// case: an event_signing_partial_sign_error_received answer. The operator hands it to the node only after batch 2 has
// been proposed. Batch 2 is then answered correctly by participants 1 and 2 (participant 0 is the slow one now).
func TestC07F2_StaleErrorAnswerOfFinishedBatchPoisonsNextBatch(t *testing.T) {
	c := f2NewCluster(t, 3, 2)
	c.runDKG()

	b1 := c.propose(1, map[string][]byte{"a.txt": []byte("message a")})
	c.quiesce()
	staleOp := c.pendingSigningOperation(2, b1)
	if staleOp == nil {
		t.Fatalf("setup: node 2 has no signing operation for batch 1")
	}
	c.answerHonestly(0, b1)
	c.answerHonestly(1, b1)
	c.quiesce()
	c.assertBatchDone(b1, 1)
	if t.Failed() {
		t.Fatalf("setup: batch 1 was not finished")
	}

	b2 := c.propose(1, map[string][]byte{"b.txt": []byte("message b")})
	c.quiesce()

	// the late answer of participant 2 to batch 1, exactly as airgapped.writeErrorRequestToOperation builds it,
	// handed to the node of participant 2 through the regular entry point for processed operations
	errReq, err := json.Marshal(requests.DKGProposalConfirmationErrorRequest{ParticipantId: 2,
		Error: requests.NewFSMError(fmt.Errorf("failed to create partialSign for msg: failed to load blsKeyring: failed to decrypt BLS keyring")), CreatedAt: staleOp.CreatedAt})
	if err != nil {
		t.Fatal(err)
	}
	err = c.nodes[2].svc.ProcessOperation(&dto.OperationDTO{ID: staleOp.ID, Type: string(staleOp.Type), Payload: staleOp.Payload, CreatedAt: staleOp.CreatedAt,
		DkgID: staleOp.DKGIdentifier, Event: sif.EventSigningPartialSignError,
		ResultMsgs: []storage.Message{{Event: string(sif.EventSigningPartialSignError), Data: errReq, DkgRoundID: staleOp.DKGIdentifier}}})
	if err != nil {
		t.Fatalf("setup: the node refused the late answer to batch 1: %v", err)
	}
	c.quiesce()

	// batch 2 is answered correctly by t participants
	c.answerHonestly(1, b2)
	c.answerHonestly(2, b2)
	c.quiesce()

	c.assertBatchDone(b2, 1)
}
