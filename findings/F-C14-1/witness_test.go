// Witness for F-C14-1 (property C14, rule C14/R1). Copy to client/modules/state/ and run WITH the race detector:
//   go test -race ./client/modules/state/ -run TestWitnessOffsetRacesWithReset -count=1
// SaveOffset/LoadOffset read s.stateDb without the mutex under which Reset replaces it: a Go data race
// (poller goroutine vs. the /resetState HTTP handler). The race detector reports it on the defective tree.
package state

import (
	"os"
	"sync"
	"testing"
)

func TestWitnessOffsetRacesWithReset(t *testing.T) {
	dir, _ := os.MkdirTemp("", "witness_c14_1_")
	defer os.RemoveAll(dir)
	st, err := NewLevelDBState(dir+"/a", "topic")
	if err != nil {
		t.Fatal(err)
	}
	var wg sync.WaitGroup
	wg.Add(2)
	go func() {
		defer wg.Done()
		for i := 0; i < 200; i++ {
			_ = st.SaveOffset(uint64(i))
			_, _ = st.LoadOffset()
		}
	}()
	go func() {
		defer wg.Done()
		for i := 0; i < 3; i++ {
			if _, err := st.Reset(dir + "/b" + string(rune('0'+i))); err != nil {
				t.Error(err)
			}
		}
	}()
	wg.Wait()
}
