// Witness for F-C08-1 (property C08, rule C08/R5 fresh decode target; also C16/R4).
// Copy this file to client/services/node/ (package node) and run:
//
//	export GOFLAGS=-mod=mod GOPROXY=off GOSUMDB=off GOTOOLCHAIN=local
//	go test -count=1 ./client/services/node/ -run TestC08_FieldsLeakBetweenMessagesOfOnePoll -v
//
// Property C08: the state of a round is a deterministic function of the board log, however the consumption of the
// log is split into polls.
//
// Defect: both board readers (storage/file_storage FileStorage.GetMessages and, with the very same shape,
// storage/kafka_storage KafkaStorage.GetMessages) decode every message of one poll into ONE storage.Message variable
// declared outside the loop. encoding/json leaves a field untouched when its key is absent, so a message that omits
// a key silently inherits the value the PREVIOUS message OF THE SAME POLL had (round id, sender, recipient, data,
// signature ...). The first message of a poll inherits nothing. What a node makes out of such a message therefore
// depends on where its poll boundaries happened to fall.
//
// Here carol, one of the three participants, publishes her (correctly signed) confirmation without the
// "dkg_round_id" key, right after bobby's confirmation. A node that had already fetched bobby's message in an earlier
// poll reads carol's message with an empty round id and refuses it; a node that fetches both in one poll (it polls with
// another phase, it was down for a moment, it is new, it replays after /resetState) reads it as a message of bobby's
// round, accepts it and starts the key generation. The nodes never converge again.
//
// Everything here is the real code: LevelDB state, file board, FSM/operation/signature services, NodeService.Poll.
package node

import (
	"context"
	"crypto/ed25519"
	"encoding/json"
	"fmt"
	"os"
	"path/filepath"
	"testing"
	"time"

	"github.com/lidofinance/dc4bc/client/api/dto"
	"github.com/lidofinance/dc4bc/client/config"
	"github.com/lidofinance/dc4bc/client/modules/keystore"
	"github.com/lidofinance/dc4bc/client/modules/logger"
	"github.com/lidofinance/dc4bc/client/modules/state"
	oprepo "github.com/lidofinance/dc4bc/client/repositories/operation"
	sigrepo "github.com/lidofinance/dc4bc/client/repositories/signature"
	"github.com/lidofinance/dc4bc/client/services"
	"github.com/lidofinance/dc4bc/client/services/fsmservice"
	"github.com/lidofinance/dc4bc/client/services/operation"
	"github.com/lidofinance/dc4bc/client/services/signature"
	spf "github.com/lidofinance/dc4bc/fsm/state_machines/signature_proposal_fsm"
	"github.com/lidofinance/dc4bc/fsm/types/requests"
	"github.com/lidofinance/dc4bc/storage"
	"github.com/lidofinance/dc4bc/storage/file_storage"
)

const c08bTopic = "c08btopic"

type c08bNode struct {
	name   string
	svc    NodeService
	fsm    fsmservice.FSMService
	cancel context.CancelFunc
	done   chan struct{}
}

// c08bNewNode builds a node out of the real services, the way services.CreateServiceProviderWithCfg does,
// with the file board instead of Kafka.
func c08bNewNode(t *testing.T, dir, name, board string, keys *keystore.KeyPair) *c08bNode {
	t.Helper()
	st, err := state.NewLevelDBState(filepath.Join(dir, name+"_state"), c08bTopic)
	if err != nil {
		t.Fatal(err)
	}
	stg, err := file_storage.NewFileStorage(board, filepath.Join(dir, "board.lock"))
	if err != nil {
		t.Fatal(err)
	}
	ks, err := keystore.NewLevelDBKeyStore(name, filepath.Join(dir, name+"_keys"))
	if err != nil {
		t.Fatal(err)
	}
	if err := ks.PutKeys(name, keys); err != nil {
		t.Fatal(err)
	}
	opRepo, err := oprepo.NewOperationRepo(st, c08bTopic)
	if err != nil {
		t.Fatal(err)
	}
	sp := services.ServiceProvider{}
	sp.SetLogger(logger.NewLogger(name))
	sp.SetState(st)
	sp.SetKeyStore(ks)
	sp.SetStorage(stg)
	sp.SetFSMService(fsmservice.NewFSMService(st, stg, c08bTopic))
	sp.SetOperationService(operation.NewOperationService(opRepo))
	sp.SetSignatureService(signature.NewSignatureService(sigrepo.NewSignatureRepo(st)))

	ctx, cancel := context.WithCancel(context.Background())
	svc, err := NewNode(ctx, &config.Config{Username: name, KafkaStorageConfig: &config.KafkaStorageConfig{Topic: c08bTopic}}, &sp)
	if err != nil {
		t.Fatal(err)
	}
	return &c08bNode{name: name, svc: svc, fsm: sp.GetFSMService(), cancel: cancel, done: make(chan struct{})}
}

func (n *c08bNode) start() {
	go func() {
		defer close(n.done)
		_ = n.svc.Poll()
	}()
}

func (n *c08bNode) stop() {
	n.cancel()
	<-n.done
}

func (n *c08bNode) waitOffset(t *testing.T, want uint64) {
	t.Helper()
	deadline := time.Now().Add(20 * time.Second)
	for time.Now().Before(deadline) {
		if off, err := n.svc.GetStateOffset(); err == nil && off == want {
			return
		}
		time.Sleep(50 * time.Millisecond)
	}
	off, _ := n.svc.GetStateOffset()
	t.Fatalf("node %s: offset %d, want %d", n.name, off, want)
}

// c08bProjection is the dump of a round without its time fields (CreatedAt / UpdatedAt / ExpiresAt).
func c08bProjection(t *testing.T, n *c08bNode, round string) string {
	t.Helper()
	dump, err := n.fsm.GetFSMDump(&dto.DkgIdDTO{DkgID: round})
	if err != nil {
		t.Fatalf("node %s: %v", n.name, err)
	}
	bz, err := json.Marshal(dump)
	if err != nil {
		t.Fatal(err)
	}
	var generic interface{}
	if err := json.Unmarshal(bz, &generic); err != nil {
		t.Fatal(err)
	}
	var strip func(v interface{})
	strip = func(v interface{}) {
		switch x := v.(type) {
		case map[string]interface{}:
			for _, k := range []string{"CreatedAt", "UpdatedAt", "ExpiresAt"} {
				delete(x, k)
			}
			for _, c := range x {
				strip(c)
			}
		case []interface{}:
			for _, c := range x {
				strip(c)
			}
		}
	}
	strip(generic)
	out, err := json.Marshal(generic) // map keys are sorted
	if err != nil {
		t.Fatal(err)
	}
	return string(out)
}

// c08bSummary is a short, readable form of the projection for the failure messages
func c08bSummary(t *testing.T, n *c08bNode, round string) string {
	t.Helper()
	dump, err := n.fsm.GetFSMDump(&dto.DkgIdDTO{DkgID: round})
	if err != nil {
		t.Fatalf("node %s: %v", n.name, err)
	}
	out := "state " + string(dump.State)
	if dump.Payload.DKGProposalPayload == nil {
		for _, p := range dump.Payload.SignatureProposalPayload.Quorum.GetOrderedParticipants() {
			out += fmt.Sprintf(", %s: %s", p.Username, p.Status)
		}
		return out + ", key generation not started"
	}
	for _, p := range dump.Payload.DKGProposalPayload.Quorum.GetOrderedParticipants() {
		out += fmt.Sprintf(", %s: %s", p.Username, p.Status)
	}
	return out
}

func c08bSigned(t *testing.T, round, event, sender string, keys *keystore.KeyPair, req interface{}) storage.Message {
	t.Helper()
	data, err := json.Marshal(req)
	if err != nil {
		t.Fatal(err)
	}
	m := storage.Message{DkgRoundID: round, Event: event, Data: data, SenderAddr: sender}
	m.Signature = ed25519.Sign(keys.Priv, m.Bytes())
	return m
}

func TestC08_FieldsLeakBetweenMessagesOfOnePoll(t *testing.T) {
	dir := t.TempDir()
	board := filepath.Join(dir, "board.log")
	const round = "round-c08-batching"

	names := []string{"alice", "bobby", "carol"}
	keys := map[string]*keystore.KeyPair{}
	for _, n := range names {
		keys[n] = keystore.NewKeyPair()
	}

	writer, err := file_storage.NewFileStorage(board, filepath.Join(dir, "board.lock"))
	if err != nil {
		t.Fatal(err)
	}

	// offsets 0..2: the opening proposal, alice's and bobby's confirmations - ordinary messages
	now := time.Now()
	proposal := requests.SignatureProposalParticipantsListRequest{SigningThreshold: 2, CreatedAt: now}
	for _, n := range names {
		proposal.Participants = append(proposal.Participants, &requests.SignatureProposalParticipantsEntry{
			Username: n, PubKey: keys[n].Pub, DkgPubKey: []byte("dkg-pub-key-of-" + n),
		})
	}
	msgs := []storage.Message{c08bSigned(t, round, string(spf.EventInitProposal), "alice", keys["alice"], proposal)}
	for id, n := range names[:2] {
		msgs = append(msgs, c08bSigned(t, round, string(spf.EventConfirmSignatureProposal), n, keys[n],
			requests.SignatureProposalParticipantRequest{ParticipantId: id, CreatedAt: now}))
	}
	if err := writer.Send(msgs...); err != nil {
		t.Fatal(err)
	}

	// alice's node follows the board live and has consumed everything published so far
	alice := c08bNewNode(t, dir, "alice", board, keys["alice"])
	alice.start()
	defer alice.stop()
	alice.waitOffset(t, 3)

	// offset 3: carol's confirmation, correctly signed with her key, published by her own (modified) client:
	// the very JSON object the stock client writes, except that the "dkg_round_id" key is left out.
	confirm := c08bSigned(t, "", string(spf.EventConfirmSignatureProposal), "carol", keys["carol"],
		requests.SignatureProposalParticipantRequest{ParticipantId: 2, CreatedAt: now})
	line, err := json.Marshal(map[string]interface{}{
		"id":        "3f0c3f0e-0000-4000-8000-00000000c08b",
		"offset":    3,
		"event":     confirm.Event,
		"data":      confirm.Data,
		"signature": confirm.Signature,
		"sender":    confirm.SenderAddr,
		"recipient": "",
	})
	if err != nil {
		t.Fatal(err)
	}
	f, err := os.OpenFile(board, os.O_APPEND|os.O_WRONLY, 0644)
	if err != nil {
		t.Fatal(err)
	}
	if _, err := f.Write(append(line, '\n')); err != nil {
		t.Fatal(err)
	}
	f.Close()

	// bobby's node consumes the very same four lines, but in one poll
	bobby := c08bNewNode(t, dir, "bobby", board, keys["bobby"])
	bobby.start()
	defer bobby.stop()

	alice.waitOffset(t, 4)
	bobby.waitOffset(t, 4)

	pa, pb := c08bProjection(t, alice, round), c08bProjection(t, bobby, round)
	if pa != pb {
		t.Errorf("two nodes consumed the same 4 board messages and disagree on the round:\n alice (polls 0-2, 3): %s\n bobby (poll 0-3):     %s",
			c08bSummary(t, alice, round), c08bSummary(t, bobby, round))
	}

	// the same node, rebuilt from an empty state by replaying the log (/resetState), does not reach the state it had
	live, liveSummary := pa, c08bSummary(t, alice, round)
	if _, err := alice.fsm.ResetFSMState(&dto.ResetStateDTO{NewStateDBDSN: filepath.Join(dir, "alice_state_replayed")}); err != nil {
		t.Fatal(err)
	}
	alice.waitOffset(t, 4)
	if replayed := c08bProjection(t, alice, round); replayed != live {
		t.Errorf("alice's node rebuilt by replaying the log does not reach the state it had live:\n live:     %s\n replayed: %s",
			liveSummary, c08bSummary(t, alice, round))
	}
}
