// Witnesses for F-C14-4 and F-C14-5 (property C14, rules C14/R3 and C14/R4). Copy to client/services/node/ and run
//   go test ./client/services/node/ -run TestWitnessC14 -count=1
// Both assert the property and therefore FAIL on the current tree.
//  F-C14-4: the API's OperationProcessed write-back (executeOperation: load round, set polynomial, save round) is
//           pre-empted after loading the round; the poller applies bob's confirmation to the same round and saves it;
//           the API resumes and saves its stale copy: bob's confirmation is lost.
//  F-C14-5: a /resetState request lands while the poller is in the middle of a message (after the round was saved, before
//           the offset is saved): the offset of the old log position is written into the fresh state, so the reset node
//           does not replay the log from the beginning.
package node

import (
	"context"
	"crypto/ed25519"
	"encoding/json"
	"os"
	"path/filepath"
	"sync"
	"testing"
	"time"

	"github.com/golang/mock/gomock"
	"github.com/google/uuid"

	"github.com/lidofinance/dc4bc/client/api/dto"
	"github.com/lidofinance/dc4bc/client/config"
	"github.com/lidofinance/dc4bc/client/modules/keystore"
	"github.com/lidofinance/dc4bc/client/modules/logger"
	"github.com/lidofinance/dc4bc/client/modules/state"
	oprepo "github.com/lidofinance/dc4bc/client/repositories/operation"
	"github.com/lidofinance/dc4bc/client/services"
	"github.com/lidofinance/dc4bc/client/services/fsmservice"
	"github.com/lidofinance/dc4bc/client/services/operation"
	"github.com/lidofinance/dc4bc/client/types"
	spf "github.com/lidofinance/dc4bc/fsm/state_machines/signature_proposal_fsm"
	"github.com/lidofinance/dc4bc/fsm/types/requests"
	"github.com/lidofinance/dc4bc/mocks/clientMocks"
	"github.com/lidofinance/dc4bc/storage"
	"github.com/lidofinance/dc4bc/storage/file_storage"
)

// parking wraps the real state and parks the caller at the n-th Get/Set of one key.
type parking struct {
	state.State
	mu            sync.Mutex
	key, op       string
	count, parkAt int
	parked        chan struct{}
	resume        chan struct{}
}

func (p *parking) hit(op, key string) {
	p.mu.Lock()
	h := false
	if p.parkAt > 0 && op == p.op && key == p.key {
		p.count++
		h = p.count == p.parkAt
	}
	p.mu.Unlock()
	if h {
		close(p.parked)
		<-p.resume
	}
}
func (p *parking) Get(key string) ([]byte, error) { v, err := p.State.Get(key); p.hit("get", key); return v, err }
func (p *parking) Set(key string, v []byte) error { err := p.State.Set(key, v); p.hit("set", key); return err }
func (p *parking) arm(op, key string, n int) {
	p.mu.Lock()
	p.op, p.key, p.count, p.parkAt = op, key, 0, n
	p.parked, p.resume = make(chan struct{}), make(chan struct{})
	p.mu.Unlock()
}

type c14env struct {
	node       NodeService
	fsm        fsmservice.FSMService
	ops        operation.OperationService
	st         *parking
	board      storage.Storage
	alice, bob, carol *keystore.KeyPair
	dir               string
}

func newC14Env(t *testing.T) *c14env {
	ctrl := gomock.NewController(t)
	t.Cleanup(ctrl.Finish)
	dir, _ := os.MkdirTemp("", "witness_c14_")
	t.Cleanup(func() { os.RemoveAll(dir) })
	real, err := state.NewLevelDBState(filepath.Join(dir, "state"), "topic")
	if err != nil {
		t.Fatal(err)
	}
	e := &c14env{alice: keystore.NewKeyPair(), bob: keystore.NewKeyPair(), carol: keystore.NewKeyPair(), st: &parking{State: real}, dir: dir}
	ks := clientMocks.NewMockKeyStore(ctrl)
	ks.EXPECT().LoadKeys("alice", "").AnyTimes().Return(e.alice, nil)
	e.board, err = file_storage.NewFileStorage(filepath.Join(dir, "board"), filepath.Join(dir, "lock"))
	if err != nil {
		t.Fatal(err)
	}
	repo, err := oprepo.NewOperationRepo(e.st, "topic")
	if err != nil {
		t.Fatal(err)
	}
	sp := services.ServiceProvider{}
	sp.SetLogger(logger.NewLogger("alice"))
	sp.SetState(e.st)
	sp.SetKeyStore(ks)
	sp.SetStorage(e.board)
	e.fsm = fsmservice.NewFSMService(e.st, e.board, "topic")
	sp.SetFSMService(e.fsm)
	e.ops = operation.NewOperationService(repo)
	sp.SetOperationService(e.ops)
	return e.withNode(t, context.Background(), &sp)
}

func (e *c14env) withNode(t *testing.T, ctx context.Context, sp *services.ServiceProvider) *c14env {
	n, err := NewNode(ctx, &config.Config{Username: "alice", KafkaStorageConfig: &config.KafkaStorageConfig{Topic: "topic"}}, sp)
	if err != nil {
		t.Fatal(err)
	}
	e.node = n
	return e
}

func (e *c14env) initMsg(round string) storage.Message {
	data, _ := json.Marshal(requests.SignatureProposalParticipantsListRequest{
		Participants: []*requests.SignatureProposalParticipantsEntry{
			{Username: "alice", PubKey: e.alice.Pub, DkgPubKey: make([]byte, 128)},
			{Username: "bob", PubKey: e.bob.Pub, DkgPubKey: make([]byte, 128)},
			{Username: "carol", PubKey: e.carol.Pub, DkgPubKey: make([]byte, 128)},
		},
		CreatedAt: time.Now(), SigningThreshold: 2,
	})
	m := storage.Message{ID: uuid.New().String(), DkgRoundID: round, Event: string(spf.EventInitProposal), Data: data, SenderAddr: "alice"}
	m.Signature = ed25519.Sign(e.alice.Priv, m.Bytes())
	return m
}

func TestWitnessC14WriteBackLosesPollerUpdate(t *testing.T) {
	e := newC14Env(t)
	round := "round-identifier-0123456789abcdef0123456789abcdef"
	if err := e.node.ProcessMessage(e.initMsg(round)); err != nil {
		t.Fatal(err)
	}
	// everybody confirms: the round enters the DKG (commits phase) and has a DKG payload, as after a reinit replay
	for i, kp := range []*keystore.KeyPair{e.alice, e.bob, e.carol} {
		data, _ := json.Marshal(requests.SignatureProposalParticipantRequest{ParticipantId: i, CreatedAt: time.Now()})
		m := storage.Message{ID: uuid.New().String(), DkgRoundID: round, Event: string(spf.EventConfirmSignatureProposal), Data: data, SenderAddr: []string{"alice", "bob", "carol"}[i]}
		m.Signature = ed25519.Sign(kp.Priv, m.Bytes())
		if err := e.node.ProcessMessage(m); err != nil {
			t.Fatal(err)
		}
	}
	op := types.NewOperation(round, []byte("[]"), types.ReinitDKG)
	if err := e.ops.PutOperation(op); err != nil {
		t.Fatal(err)
	}
	fsmKey := "topic_" + fsmservice.FSMStateKey
	e.st.arm("get", fsmKey, 1) // executeOperation's GetFSMInstance reads the round map: park right after that read
	apiDone := make(chan error, 1)
	go func() {
		apiDone <- e.node.ProcessOperation(&dto.OperationDTO{ID: op.ID, Type: string(op.Type), Payload: op.Payload, DkgID: round, CreatedAt: op.CreatedAt,
			Event: types.OperationProcessed, ExtraData: []byte("POLY")})
	}()
	select {
	case <-e.st.parked:
	case err := <-apiDone:
		t.Skipf("write-back did not reach the round load (setup): %v", err)
	}
	// poller: bob's commits arrive
	data, _ := json.Marshal(requests.DKGProposalCommitConfirmationRequest{ParticipantId: 1, Commit: []byte("commits-of-bob"), CreatedAt: time.Now()})
	m := storage.Message{ID: uuid.New().String(), DkgRoundID: round, Event: "event_dkg_commit_confirm_received", Data: data, SenderAddr: "bob"}
	m.Signature = ed25519.Sign(e.bob.Priv, m.Bytes())
	pollDone := make(chan error, 1)
	go func() { pollDone <- e.node.ProcessMessage(m) }()
	select {
	case err := <-pollDone:
		if err != nil {
			t.Fatal(err)
		}
		close(e.st.resume)
	case <-time.After(500 * time.Millisecond): // serialised: the poller waits for the API request
		close(e.st.resume)
		if err := <-pollDone; err != nil {
			t.Fatal(err)
		}
	}
	if err := <-apiDone; err != nil {
		t.Fatal(err)
	}
	inst, err := e.fsm.GetFSMInstance(round, false)
	if err != nil {
		t.Fatal(err)
	}
	if got := inst.FSMDump().Payload.DKGProposalPayload.Quorum[1].Status.String(); got != "CommitConfirmed" {
		t.Fatalf("bob's commits, applied and saved by the poller, were overwritten by the API request's stale round copy: status %s", got)
	}
	if string(inst.FSMDump().Payload.DKGProposalPayload.PubPolyBz) != "POLY" {
		t.Fatalf("the API request's write-back was lost")
	}
}

func TestWitnessC14ResetDuringMessage(t *testing.T) {
	e := newC14Env(t)
	round := "round-identifier-0123456789abcdef0123456789abcdef"
	if err := e.board.Send(e.initMsg(round)); err != nil {
		t.Fatal(err)
	}
	opsKey := state.MakeCompositeKeyString("topic", oprepo.OperationsKey)
	e.st.arm("set", opsKey, 1) // park the poller after PutOperation's write, i.e. before SaveOffset
	// rebuild the node with a cancellable context for Poll
	ctx, cancel := context.WithCancel(context.Background())
	defer cancel()
	ctrl := gomock.NewController(t)
	ks := clientMocks.NewMockKeyStore(ctrl)
	ks.EXPECT().LoadKeys("alice", "").AnyTimes().Return(e.alice, nil)
	sp := services.ServiceProvider{}
	sp.SetLogger(logger.NewLogger("alice"))
	sp.SetState(e.st)
	sp.SetKeyStore(ks)
	sp.SetStorage(e.board)
	sp.SetFSMService(e.fsm)
	sp.SetOperationService(e.ops)
	e.withNode(t, ctx, &sp)
	go func() { _ = e.node.Poll() }()
	select {
	case <-e.st.parked:
	case <-time.After(5 * time.Second):
		t.Fatal("poller did not reach the operation write")
	}
	if _, err := e.fsm.ResetFSMState(&dto.ResetStateDTO{NewStateDBDSN: filepath.Join(e.dir, "state_after_reset")}); err != nil {
		t.Fatal(err)
	}
	close(e.st.resume)
	time.Sleep(300 * time.Millisecond) // let the poller finish the message (SaveOffset)
	cancel()
	off, err := e.st.LoadOffset()
	if err != nil {
		t.Fatal(err)
	}
	exists, _ := e.fsm.IsExist(round)
	if off != 0 && !exists {
		t.Fatalf("after the reset the fresh state starts at offset %d although it does not contain the round of the skipped message: that part of the log is never replayed", off)
	}
}
