// Witness for F-C19-2 (property C19, rule C19/R3 marshal-failure-reported). Copy to client/services/node/ and run
//   go test ./client/services/node/ -run TestWitnessUnencodableDumpIsPersisted -count=1
// FSMInstance.Do returns the machine's (nil) error when encoding the dump fails. An unsigned opening proposal whose
// CreatedAt lies in the last days of year 9999 makes the round's ExpiresAt (CreatedAt + deadline) fall into year 10000,
// which time.Time cannot marshal: Do answers (response, []byte{}, nil), the node stores the empty dump of the accepted
// event, and from then on the round cannot be restored ("machine dump is empty") and listing fails for EVERY round.
package node

import (
	"context"
	"encoding/json"
	"os"
	"testing"
	"time"

	"github.com/golang/mock/gomock"

	"github.com/lidofinance/dc4bc/client/config"
	"github.com/lidofinance/dc4bc/client/modules/keystore"
	"github.com/lidofinance/dc4bc/client/modules/logger"
	"github.com/lidofinance/dc4bc/client/modules/state"
	"github.com/lidofinance/dc4bc/client/services"
	"github.com/lidofinance/dc4bc/client/services/fsmservice"
	"github.com/lidofinance/dc4bc/fsm/types/requests"
	"github.com/lidofinance/dc4bc/mocks/clientMocks"
	"github.com/lidofinance/dc4bc/mocks/serviceMocks"
	"github.com/lidofinance/dc4bc/mocks/storageMocks"
	"github.com/lidofinance/dc4bc/storage"
)

func TestWitnessUnencodableDumpIsPersisted(t *testing.T) {
	ctrl := gomock.NewController(t)
	defer ctrl.Finish()
	dir, _ := os.MkdirTemp("", "witness_c19_2_")
	defer os.RemoveAll(dir)
	st, err := state.NewLevelDBState(dir, "topic")
	if err != nil {
		t.Fatal(err)
	}
	ks := clientMocks.NewMockKeyStore(ctrl)
	ks.EXPECT().LoadKeys("alice", "").AnyTimes().Return(keystore.NewKeyPair(), nil)
	stg := storageMocks.NewMockStorage(ctrl)
	fsmSvc := fsmservice.NewFSMService(st, stg, "topic")
	ops := serviceMocks.NewMockOperationService(ctrl)
	ops.EXPECT().PutOperation(gomock.Any()).AnyTimes().Return(nil)
	sp := services.ServiceProvider{}
	sp.SetLogger(logger.NewLogger("alice"))
	sp.SetState(st)
	sp.SetKeyStore(ks)
	sp.SetStorage(stg)
	sp.SetFSMService(fsmSvc)
	sp.SetOperationService(ops)
	n, err := NewNode(context.Background(), &config.Config{Username: "alice", KafkaStorageConfig: &config.KafkaStorageConfig{Topic: "topic"}}, &sp)
	if err != nil {
		t.Fatal(err)
	}
	key := make([]byte, 32)
	mk := func(created time.Time) []byte {
		bz, _ := json.Marshal(requests.SignatureProposalParticipantsListRequest{
			Participants: []*requests.SignatureProposalParticipantsEntry{
				{Username: "alice", PubKey: key, DkgPubKey: key},
				{Username: "bob", PubKey: key, DkgPubKey: key},
			},
			SigningThreshold: 2,
			CreatedAt:        created,
		})
		return bz
	}
	// an honest round first
	if err := n.ProcessMessage(storage.Message{ID: "m-0", DkgRoundID: "round-good", Offset: 0, Event: "event_sig_proposal_init", Data: mk(time.Now()), SenderAddr: "alice"}); err != nil {
		t.Fatal(err)
	}
	if _, err := fsmSvc.GetFSMList(); err != nil {
		t.Fatalf("listing fails before the bad message: %v", err)
	}
	// the unsigned proposal from the end of year 9999
	late := time.Date(9999, 12, 30, 0, 0, 0, 0, time.UTC)
	perr := n.ProcessMessage(storage.Message{ID: "m-1", DkgRoundID: "round-9999", Offset: 1, Event: "event_sig_proposal_init", Data: mk(late), SenderAddr: "mallory"})
	if _, err := fsmSvc.GetFSMList(); err != nil {
		t.Fatalf("ProcessMessage returned %v for the year-9999 proposal, and now listing fails for every round: %v", perr, err)
	}
	if perr == nil {
		if _, err := fsmSvc.GetFSMInstance("round-9999", false); err != nil {
			t.Fatalf("the proposal was accepted but its round cannot be restored: %v", err)
		}
	}
}
