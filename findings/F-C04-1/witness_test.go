// Witness for F-C04-1 (property C04, rule C04/R4). Copy to airgapped/ and run
//   go test ./airgapped/ -run TestWitnessDealerPolynomialSharedAcrossRounds -count=1
// The dealer's secret polynomial is drawn from frand.NewCustom(baseSeed) — the round identifier is mixed into the
// suite's seed only, not into the reader kyber draws the polynomial from (UserReaderOnly). The same machine therefore
// publishes the same commitments (= the same secret polynomial) in two rounds with different identifiers: the group key
// of two rounds with the same participants and threshold is the same. The test asserts the property and FAILS today.
package airgapped

import (
	"bytes"
	"encoding/json"
	"os"
	"testing"
	"time"

	client "github.com/lidofinance/dc4bc/client/types"
	"github.com/lidofinance/dc4bc/fsm/state_machines/dkg_proposal_fsm"
	"github.com/lidofinance/dc4bc/fsm/types/requests"
	"github.com/lidofinance/dc4bc/fsm/types/responses"
)

func TestWitnessDealerPolynomialSharedAcrossRounds(t *testing.T) {
	dir, _ := os.MkdirTemp("", "witness_c04_")
	defer os.RemoveAll(dir)
	var machines []*Machine
	var entries responses.DKGProposalPubKeysParticipantResponse
	for i := 0; i < 3; i++ {
		am, err := NewMachine(dir + "/db" + string(rune('0'+i)))
		if err != nil {
			t.Fatal(err)
		}
		am.SetEncryptionKey([]byte("password"))
		if err := am.InitKeys(); err != nil {
			t.Fatal(err)
		}
		pk, _ := am.GetPubKey().MarshalBinary()
		entries = append(entries, &responses.DKGProposalPubKeysParticipantEntry{ParticipantId: i, Username: "user" + string(rune('0'+i)), DkgPubKey: pk, Threshold: 2})
		machines = append(machines, am)
	}
	payload, _ := json.Marshal(entries)
	commitsOf := func(round string) []byte {
		op := client.Operation{ID: "operation-identifier-" + round, Type: client.OperationType(dkg_proposal_fsm.StateDkgCommitsAwaitConfirmations),
			Payload: payload, DKGIdentifier: round, CreatedAt: time.Now()}
		res, err := machines[0].GetOperationResult(op)
		if err != nil {
			t.Fatal(err)
		}
		var req requests.DKGProposalCommitConfirmationRequest
		if err := json.Unmarshal(res.ResultMsgs[0].Data, &req); err != nil {
			t.Fatal(err)
		}
		return req.Commit
	}
	a := commitsOf("round-AAAAAAAAAAAAAAAAAAAAAAAAAAAAAAAA")
	b := commitsOf("round-BBBBBBBBBBBBBBBBBBBBBBBBBBBBBBBB")
	if bytes.Equal(a, b) {
		t.Fatalf("the same machine published identical dealer commitments in two rounds with different identifiers: its secret polynomial is reused across rounds")
	}
}
