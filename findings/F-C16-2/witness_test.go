// Witness for F-C16-2 (property C16, rule C16/R3 send-refuses-oversize).
// Finding 1 (C16): Send accepts a message whose JSON line exceeds the reader's 1 MiB limit.
// After that the board is unreadable for everybody and every later message gets the same offset.
//
// Copy to:  storage/file_storage/demo_oversize_test.go
// Run:      export GOFLAGS=-mod=mod GOPROXY=off GOSUMDB=off GOTOOLCHAIN=local
//           go test -count=1 ./storage/file_storage/ -run TestDemoOversizeMessageBricksBoard -v
package file_storage

import (
	"bufio"
	"bytes"
	"encoding/json"
	"os"
	"path/filepath"
	"testing"

	"github.com/lidofinance/dc4bc/storage"
)

func TestDemoOversizeMessageBricksBoard(t *testing.T) {
	dir := t.TempDir()
	path := filepath.Join(dir, "board")
	lock := filepath.Join(dir, "lock")

	w, err := NewFileStorage(path, lock)
	if err != nil {
		t.Fatal(err)
	}
	defer w.Close()

	for i := 0; i < 3; i++ {
		if err := w.Send(storage.Message{Data: []byte("small-before")}); err != nil {
			t.Fatal(err)
		}
	}
	// 800000 bytes of Data -> ~1.07 MB of base64 in one line, i.e. more than maxLineSize.
	// (a batch signing proposal / a deal bundle of that size is all it takes)
	big := storage.Message{Data: bytes.Repeat([]byte{0x42}, 800000), SenderAddr: "mallory"}
	if err := w.Send(big); err != nil {
		t.Logf("oversize message refused (this would be the correct behaviour): %v", err)
	} else {
		t.Logf("oversize message was ACCEPTED by Send")
	}
	for i := 0; i < 3; i++ {
		if err := w.Send(storage.Message{Data: []byte("small-after")}); err != nil {
			t.Fatalf("honest send after the oversize one failed: %v", err)
		}
	}

	// 1. a fresh reader must be able to read the log
	r, err := NewFileStorage(path, lock)
	if err != nil {
		t.Fatal(err)
	}
	defer r.Close()
	for _, from := range []uint64{0, 2, 5} {
		if _, err := r.GetMessages(from); err != nil {
			t.Errorf("GetMessages(%d) on a fresh handle after quiescence: %v", from, err)
		}
	}

	// 2. raw file: offset field must equal the line number, without repeats
	f, err := os.Open(path)
	if err != nil {
		t.Fatal(err)
	}
	defer f.Close()
	rd := bufio.NewReaderSize(f, 4<<20)
	var offsets []uint64
	for {
		line, err := rd.ReadBytes('\n')
		if len(line) > 0 {
			var m storage.Message
			if jerr := json.Unmarshal(line, &m); jerr != nil {
				t.Fatalf("raw line %d is not JSON: %v", len(offsets), jerr)
			}
			offsets = append(offsets, m.Offset)
		}
		if err != nil {
			break
		}
	}
	t.Logf("offsets stored in the raw file, by line: %v", offsets)
	for pos, off := range offsets {
		if off != uint64(pos) {
			t.Errorf("line %d of the log carries offset %d", pos, off)
		}
	}
}
