// Witness for F-C18-6 (property C18, rule C18/R5). Copy to airgapped/ and run
//   go test ./airgapped/ -run TestWitnessDealWithoutBodyCrashesMachine -count=1
// A participant sends the victim a correctly encrypted private deal whose JSON has no "Deal" member
// ({"Index":1}). The airgapped machine decodes it into a kyber Deal with a nil *EncryptedDeal, stores it and hands it to
// kyber's ProcessDeal, which dereferences the nil pointer: the machine crashes instead of answering with an error
// request, and crashes again whenever the operation file is fed again.
package airgapped

import (
	"encoding/json"
	"os"
	"testing"
	"time"

	client "github.com/lidofinance/dc4bc/client/types"
	"github.com/lidofinance/dc4bc/fsm/state_machines/dkg_proposal_fsm"
	"github.com/lidofinance/dc4bc/fsm/types/responses"
)

func TestWitnessDealWithoutBodyCrashesMachine(t *testing.T) {
	dir, _ := os.MkdirTemp("", "witness_c18_6_")
	defer os.RemoveAll(dir)
	mk := func(name string) *Machine {
		am, err := NewMachine(dir + "/db_" + name)
		if err != nil {
			t.Fatal(err)
		}
		am.SetEncryptionKey([]byte("password"))
		am.SetResultFolder(dir)
		if err := am.InitKeys(); err != nil {
			t.Fatal(err)
		}
		return am
	}
	victim, attacker := mk("victim"), mk("attacker")
	pk, _ := victim.GetPubKey().MarshalBinary()
	pk2, _ := attacker.GetPubKey().MarshalBinary()
	const round = "round-0001"
	commits, _ := json.Marshal(responses.DKGProposalPubKeysParticipantResponse{
		{ParticipantId: 0, Username: "victim", DkgPubKey: pk, Threshold: 2},
		{ParticipantId: 1, Username: "attacker", DkgPubKey: pk2, Threshold: 2},
	})
	for _, m := range []*Machine{victim, attacker} {
		op := client.Operation{ID: "op-commits", Type: client.OperationType(dkg_proposal_fsm.StateDkgCommitsAwaitConfirmations), Payload: commits, DKGIdentifier: round, CreatedAt: time.Now()}
		if _, err := m.GetOperationResult(op); err != nil {
			t.Fatal(err)
		}
	}
	// the attacker's "deal": valid ECIES ciphertext for the victim, JSON without the Deal member
	enc, err := attacker.encryptDataForParticipant(round, "victim", []byte(`{"Index":1}`))
	if err != nil {
		t.Fatal(err)
	}
	deals, _ := json.Marshal(responses.DKGProposalDealParticipantResponse{
		{ParticipantId: 1, Username: "attacker", DkgDeal: enc},
	})
	op := client.Operation{ID: "op-responses", Type: client.OperationType(dkg_proposal_fsm.StateDkgResponsesAwaitConfirmations), Payload: deals, DKGIdentifier: round, CreatedAt: time.Now()}
	defer func() {
		if r := recover(); r != nil {
			t.Fatalf("a private deal without a body crashed the airgapped machine: %v", r)
		}
	}()
	res, err := victim.GetOperationResult(op)
	if err != nil {
		t.Logf("rejected with a fatal error (acceptable): %v", err)
		return
	}
	if res.Event != dkg_proposal_fsm.EventDKGResponseConfirmationError {
		t.Fatalf("the malformed deal was not answered with the error event, got %q", res.Event)
	}
}
