// Witness for F-C18-1 (property C18, rule C18/R1). Copy to airgapped/ and run
//   go test ./airgapped/ -run TestWitnessShortRoundIdentifierCrashesMachine -count=1
// An operation file whose round identifier (or operation id) is shorter than 5 bytes crashes the airgapped machine:
// Operation.Filename slices DKGIdentifier[:5] / ID[:5] without a length check — after the operation was already handled
// (DKG instance created) and logged, so every replay of the log crashes again.
package airgapped

import (
	"encoding/json"
	"os"
	"testing"
	"time"

	client "github.com/lidofinance/dc4bc/client/types"
	"github.com/lidofinance/dc4bc/fsm/state_machines/dkg_proposal_fsm"
	"github.com/lidofinance/dc4bc/fsm/types/responses"
)

func TestWitnessShortRoundIdentifierCrashesMachine(t *testing.T) {
	dir, _ := os.MkdirTemp("", "witness_c18_1_")
	defer os.RemoveAll(dir)
	am, err := NewMachine(dir + "/db")
	if err != nil {
		t.Fatal(err)
	}
	am.SetEncryptionKey([]byte("password"))
	am.SetResultFolder(dir)
	if err := am.InitKeys(); err != nil {
		t.Fatal(err)
	}
	other, err := NewMachine(dir + "/db2")
	if err != nil {
		t.Fatal(err)
	}
	other.SetEncryptionKey([]byte("password"))
	if err := other.InitKeys(); err != nil {
		t.Fatal(err)
	}
	pk, _ := am.GetPubKey().MarshalBinary()
	pk2, _ := other.GetPubKey().MarshalBinary()
	payload, _ := json.Marshal(responses.DKGProposalPubKeysParticipantResponse{
		{ParticipantId: 0, Username: "self", DkgPubKey: pk, Threshold: 2},
		{ParticipantId: 1, Username: "other", DkgPubKey: pk2, Threshold: 2},
	})
	op := client.Operation{ID: "abc", Type: client.OperationType(dkg_proposal_fsm.StateDkgCommitsAwaitConfirmations), Payload: payload, DKGIdentifier: "abc", CreatedAt: time.Now()}
	defer func() {
		if r := recover(); r != nil {
			t.Fatalf("operation file with a short round identifier crashed the machine: %v", r)
		}
	}()
	if _, err := am.ProcessOperation(op, true); err != nil {
		t.Logf("rejected with an error (fine): %v", err)
	}
}
