// Witness for F-C14-2 (property C14, rule C14/R2). Copy to client/repositories/operation/ and run
//   go test ./client/repositories/operation/ -run TestWitnessPutLostByConcurrentDelete -count=1
// Schedule: the API goroutine retires operation A (DeleteOperation) and is pre-empted after it has read the pool;
// the poller stores a new operation B (PutOperation); the API goroutine resumes and writes back its stale pool.
// On the defective tree B is lost (no lock spans read-modify-write of <topic>_operations).
package operation

import (
	"os"
	"sync"
	"testing"
	"time"

	"github.com/lidofinance/dc4bc/client/modules/state"
	"github.com/lidofinance/dc4bc/client/types"
)

type parkingState struct {
	state.State
	key    string
	n      int
	parkAt int
	parked chan struct{}
	resume chan struct{}
	mu     sync.Mutex
}

func (p *parkingState) Get(key string) ([]byte, error) {
	v, err := p.State.Get(key)
	if key == p.key {
		p.mu.Lock()
		p.n++
		hit := p.n == p.parkAt
		p.mu.Unlock()
		if hit {
			close(p.parked)
			<-p.resume
		}
	}
	return v, err
}

func TestWitnessPutLostByConcurrentDelete(t *testing.T) {
	dir, _ := os.MkdirTemp("", "witness_c14_2_")
	defer os.RemoveAll(dir)
	st, err := state.NewLevelDBState(dir, "topic")
	if err != nil {
		t.Fatal(err)
	}
	ps := &parkingState{State: st, key: state.MakeCompositeKeyString("topic", OperationsKey), parked: make(chan struct{}), resume: make(chan struct{})}
	repo, err := NewOperationRepo(ps, "topic")
	if err != nil {
		t.Fatal(err)
	}
	a := types.NewOperation("round-identifier", []byte("A"), "state_dkg_commits_await_confirmations")
	b := types.NewOperation("round-identifier", []byte("B"), "state_dkg_deals_await_confirmations")
	if err := repo.PutOperation(a); err != nil {
		t.Fatal(err)
	}
	ps.mu.Lock()
	ps.parkAt = ps.n + 1 // park the next read of the pool: the one inside DeleteOperation
	ps.mu.Unlock()
	delDone := make(chan error, 1)
	go func() { delDone <- repo.DeleteOperation(a) }()
	<-ps.parked
	putDone := make(chan error, 1)
	go func() { putDone <- repo.PutOperation(b) }()
	select {
	case err := <-putDone: // not serialised: the put ran in the middle of the delete
		if err != nil {
			t.Fatal(err)
		}
		close(ps.resume)
	case <-time.After(300 * time.Millisecond): // serialised by a lock: let the delete finish first
		close(ps.resume)
		if err := <-putDone; err != nil {
			t.Fatal(err)
		}
	}
	if err := <-delDone; err != nil {
		t.Fatal(err)
	}
	ops, err := repo.GetOperations()
	if err != nil {
		t.Fatal(err)
	}
	if _, ok := ops[b.ID]; !ok {
		t.Fatalf("newly created pending operation B was lost by the concurrent retirement of A (pool: %d entries)", len(ops))
	}
	if _, ok := ops[a.ID]; ok {
		t.Fatalf("retired operation A is pending again")
	}
}
