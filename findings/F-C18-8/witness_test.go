// Witness for F-C18-8 (property C18, rule C18/R1 wire-deref). Copy to client/services/node/ and run
//   go test ./client/services/node/ -run TestWitnessNullParticipantCrashesNode -count=1
// The opening proposal (event_sig_proposal_init) is the one board message that is accepted without a signature. Its
// Participants member is a list of pointers; a document with "Participants":[null,null] decodes into nil entries, and
// SignatureProposalParticipantsListRequest.Validate dereferences them: the node's message handler panics (the polling
// daemon has no recover) instead of rejecting the message, and panics again on every restart because the offset is not
// advanced.
package node

import (
	"context"
	"os"
	"testing"

	"github.com/golang/mock/gomock"

	"github.com/lidofinance/dc4bc/client/config"
	"github.com/lidofinance/dc4bc/client/modules/keystore"
	"github.com/lidofinance/dc4bc/client/modules/logger"
	"github.com/lidofinance/dc4bc/client/modules/state"
	"github.com/lidofinance/dc4bc/client/services"
	"github.com/lidofinance/dc4bc/client/services/fsmservice"
	"github.com/lidofinance/dc4bc/mocks/clientMocks"
	"github.com/lidofinance/dc4bc/mocks/serviceMocks"
	"github.com/lidofinance/dc4bc/mocks/storageMocks"
	"github.com/lidofinance/dc4bc/storage"
)

func TestWitnessNullParticipantCrashesNode(t *testing.T) {
	ctrl := gomock.NewController(t)
	defer ctrl.Finish()
	dir, _ := os.MkdirTemp("", "witness_c18_8_")
	defer os.RemoveAll(dir)
	st, err := state.NewLevelDBState(dir, "topic")
	if err != nil {
		t.Fatal(err)
	}
	ks := clientMocks.NewMockKeyStore(ctrl)
	ks.EXPECT().LoadKeys("alice", "").AnyTimes().Return(keystore.NewKeyPair(), nil)
	stg := storageMocks.NewMockStorage(ctrl)
	fsmSvc := fsmservice.NewFSMService(st, stg, "topic")
	ops := serviceMocks.NewMockOperationService(ctrl)
	ops.EXPECT().PutOperation(gomock.Any()).AnyTimes().Return(nil)
	sp := services.ServiceProvider{}
	sp.SetLogger(logger.NewLogger("alice"))
	sp.SetState(st)
	sp.SetKeyStore(ks)
	sp.SetStorage(stg)
	sp.SetFSMService(fsmSvc)
	sp.SetOperationService(ops)
	n, err := NewNode(context.Background(), &config.Config{Username: "alice", KafkaStorageConfig: &config.KafkaStorageConfig{Topic: "topic"}}, &sp)
	if err != nil {
		t.Fatal(err)
	}
	msg := storage.Message{
		ID:         "m-1",
		DkgRoundID: "round-1",
		Offset:     0,
		Event:      "event_sig_proposal_init",
		Data:       []byte(`{"Participants":[null,null],"SigningThreshold":2,"CreatedAt":"2021-01-01T00:00:00Z"}`),
		SenderAddr: "mallory", // unsigned: the opening proposal is exempt from verification
	}
	defer func() {
		if p := recover(); p != nil {
			t.Fatalf("an unsigned opening proposal with null participants panics the node's message handler: %v", p)
		}
	}()
	if err := n.ProcessMessage(msg); err == nil {
		t.Fatal("an opening proposal with null participants was accepted")
	}
}
