// Witness for F-C16-1 (property C16, rule C16/R3). Copy to storage/file_storage/ and run
//   go test ./storage/file_storage/ -run TestWitnessOffsetsAfterLongLine
// On the defective tree offsets repeat after a line longer than 64 KiB (0,1,1,1): the writer-side line
// counter uses the default bufio.Scanner limit while the reader accepts 1 MiB lines.
package file_storage

import (
	"bytes"
	"os"
	"path/filepath"
	"testing"

	"github.com/lidofinance/dc4bc/storage"
)

func TestWitnessOffsetsAfterLongLine(t *testing.T) {
	dir := t.TempDir()
	st, err := NewFileStorage(filepath.Join(dir, "board"), filepath.Join(dir, "lock"))
	if err != nil {
		t.Fatal(err)
	}
	defer st.Close()
	defer os.RemoveAll(dir)
	msgs := []storage.Message{
		{Data: []byte("small")},
		{Data: bytes.Repeat([]byte{0xAB}, 100*1024)}, // ~137 KiB as base64 JSON, below the reader's 1 MiB limit
		{Data: []byte("after-1")},
		{Data: []byte("after-2")},
	}
	for i := range msgs {
		if err := st.Send(msgs[i]); err != nil {
			t.Fatal(err)
		}
	}
	got, err := st.GetMessages(0)
	if err != nil {
		t.Fatal(err)
	}
	if len(got) != 4 {
		t.Fatalf("read %d messages", len(got))
	}
	for i, m := range got {
		if m.Offset != uint64(i) {
			t.Fatalf("entry at position %d carries offset %d (offsets: %d,%d,%d,%d)", i, m.Offset, got[0].Offset, got[1].Offset, got[2].Offset, got[3].Offset)
		}
	}
}
