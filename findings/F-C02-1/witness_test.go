// Witness for F-C02-1 (property C02, rule C02/R1). Copy to fsm/state_machines/ and run
//   go test ./fsm/state_machines/ -run TestWitnessDifferingPublicPolynomialsAccepted
// Two participants announce the same group key but different public polynomials. The round still becomes
// state_dkg_master_key_collected and the node retains whichever polynomial arrived last (never compared).
// The test asserts the property and therefore FAILS on the current tree.
package state_machines

import (
	"encoding/json"
	"testing"
	"time"

	"github.com/lidofinance/dc4bc/fsm/fsm"
	dpf "github.com/lidofinance/dc4bc/fsm/state_machines/dkg_proposal_fsm"
	"github.com/lidofinance/dc4bc/fsm/state_machines/internal"
	"github.com/lidofinance/dc4bc/fsm/types/requests"
)

func TestWitnessDifferingPublicPolynomialsAccepted(t *testing.T) {
	now := time.Now()
	dump := FSMDump{
		TransactionId: "round",
		State:         fsm.State(dpf.StateDkgMasterKeyAwaitConfirmations),
		Payload: &internal.DumpedMachineStatePayload{
			DkgId: "round", Threshold: 2,
			SignatureProposalPayload: &internal.SignatureConfirmation{Quorum: internal.SignatureProposalQuorum{}, CreatedAt: now, UpdatedAt: now, ExpiresAt: now.Add(time.Hour)},
			DKGProposalPayload: &internal.DKGConfirmation{
				Quorum: internal.DKGProposalQuorum{
					0: {Username: "a", Status: internal.MasterKeyAwaitConfirmation},
					1: {Username: "b", Status: internal.MasterKeyAwaitConfirmation}},
				CreatedAt: now, UpdatedAt: now, ExpiresAt: now.Add(time.Hour)},
		},
	}
	bz, _ := json.Marshal(dump)
	var resp *fsm.Response
	for i, poly := range [][]byte{[]byte("POLYNOMIAL-OF-A"), []byte("A-DIFFERENT-POLYNOMIAL")} {
		inst, err := FromDump(bz)
		if err != nil {
			t.Fatal(err)
		}
		resp, bz, err = inst.Do(dpf.EventDKGMasterKeyConfirmationReceived, requests.DKGProposalMasterKeyConfirmationRequest{
			ParticipantId: i, MasterKey: []byte("same-group-key"), PubPolyBz: poly, CreatedAt: now})
		if err != nil {
			t.Fatal(err)
		}
	}
	if resp.State == dpf.StateDkgMasterKeyCollected {
		inst, _ := FromDump(bz)
		t.Fatalf("round is signing-ready although the announced public polynomials differ; retained polynomial = %q", inst.FSMDump().Payload.DKGProposalPayload.PubPolyBz)
	}
}
