// Witness for F-C19-1 (property C19, rule C19/R1). Copy to fsm/state_machines/ and run
//   go test ./fsm/state_machines/ -run TestWitnessCancelledRoundRestorable
// On the defective tree a round that was declined cannot be loaded back ("cannot init machine for state");
// on the repaired tree every reachable state is restorable.
package state_machines

import (
	"crypto/ed25519"
	"testing"
	"time"

	spf "github.com/lidofinance/dc4bc/fsm/state_machines/signature_proposal_fsm"
	"github.com/lidofinance/dc4bc/fsm/types/requests"
)

func TestWitnessCancelledRoundRestorable(t *testing.T) {
	inst, err := Create("witness-round")
	if err != nil {
		t.Fatal(err)
	}
	now := time.Now()
	var ps []*requests.SignatureProposalParticipantsEntry
	for _, n := range []string{"alice", "bobby", "carol"} {
		pub, _, _ := ed25519.GenerateKey(nil)
		ps = append(ps, &requests.SignatureProposalParticipantsEntry{Username: n, PubKey: pub, DkgPubKey: []byte("0123456789abcdef")})
	}
	_, dump, err := inst.Do(spf.EventInitProposal, requests.SignatureProposalParticipantsListRequest{Participants: ps, SigningThreshold: 2, CreatedAt: now})
	if err != nil {
		t.Fatal(err)
	}
	inst, err = FromDump(dump)
	if err != nil {
		t.Fatal(err)
	}
	resp, dump, err := inst.Do(spf.EventDeclineProposal, requests.SignatureProposalParticipantRequest{ParticipantId: 1, CreatedAt: now})
	if err != nil {
		t.Fatal(err)
	}
	if resp.State != spf.StateValidationCanceledByParticipant {
		t.Fatalf("unexpected state %s", resp.State)
	}
	restored, err := FromDump(dump)
	if err != nil {
		t.Fatalf("a declined round cannot be restored from its own dump: %v", err)
	}
	st, _ := restored.State()
	if st != spf.StateValidationCanceledByParticipant {
		t.Fatalf("restored in state %s", st)
	}
	// a cancelled round stays cancelled: every further event is rejected
	if _, _, err := restored.Do(spf.EventConfirmSignatureProposal, requests.SignatureProposalParticipantRequest{ParticipantId: 0, CreatedAt: now}); err == nil {
		t.Fatal("cancelled round accepted a confirmation")
	}
}
