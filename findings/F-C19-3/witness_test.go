// Witness for F-C19-3 (property C19, rule C19/R3 state-only-on-success).
// Copy to: fsm/state_machines/h19_rejected_event_dump_test.go
// Run:     go test -count=1 ./fsm/state_machines/ -run TestH19_RejectedEventPoisonsDump -v
//
// Property C19: every state a round can reach can be saved and loaded back.
//
// FSMInstance.Do copies result.State into the dump whenever the machine returned a non-nil response.
// When an action callback rejects the request (bad arguments, unknown participant, wrong status, ...),
// fsm.FSM.do returns `&Response{}` (State == "") together with the error, so Do overwrites
// dump.State with "" although the machine did not move. From then on
//   - the bytes returned by Do next to the error, and
//   - everything FSMInstance.Dump() returns
// describe a round in state "" which FromDump refuses ("cannot init machine for state"),
// while the very same in-memory instance still reports the right state and keeps accepting events.
package state_machines_test

import (
	"encoding/json"
	"testing"
	"time"

	"github.com/lidofinance/dc4bc/fsm/state_machines"
	spf "github.com/lidofinance/dc4bc/fsm/state_machines/signature_proposal_fsm"
	"github.com/lidofinance/dc4bc/fsm/types/requests"
)

func TestH19_RejectedEventPoisonsDump(t *testing.T) {
	now := time.Now()

	inst, err := state_machines.Create("d8a928b2043db77e340b523547bf16cb4aa483f0645fe0a290ed1f20aab76257")
	if err != nil {
		t.Fatal(err)
	}

	// open a round with 3 participants
	init := requests.SignatureProposalParticipantsListRequest{SigningThreshold: 2, CreatedAt: now}
	for _, name := range []string{"node_0", "node_1", "node_2"} {
		init.Participants = append(init.Participants, &requests.SignatureProposalParticipantsEntry{
			Username: name, PubKey: make([]byte, 32), DkgPubKey: make([]byte, 48),
		})
	}
	_, goodDump, err := inst.Do(spf.EventInitProposal, init)
	if err != nil {
		t.Fatal(err)
	}
	if _, err := state_machines.FromDump(goodDump); err != nil {
		t.Fatalf("dump after the opening proposal must be loadable: %v", err)
	}

	// a confirmation for a participant that is not part of the round: the event is (rightly) rejected
	resp, errDump, err := inst.Do(spf.EventConfirmSignatureProposal, requests.SignatureProposalParticipantRequest{
		ParticipantId: 7, CreatedAt: now.Add(time.Second),
	})
	if err == nil {
		t.Fatal("the confirmation of an unknown participant must be rejected")
	}
	t.Logf("rejected as expected: %v (response state %q)", err, resp.State)

	// the round did not move ...
	st, _ := inst.State()
	if st != spf.StateAwaitParticipantsConfirmations {
		t.Fatalf("a rejected event moved the machine to %q", st)
	}

	// ... so saving it must give a loadable round in the same state
	saved, err := inst.Dump()
	if err != nil {
		t.Fatal(err)
	}
	var hdr struct{ State string }
	_ = json.Unmarshal(saved, &hdr)
	t.Logf("State field of the saved round: %q (machine reports %q)", hdr.State, st)

	failed := false
	if _, err := state_machines.FromDump(saved); err != nil {
		t.Errorf("round saved after a rejected event cannot be loaded back: %v", err)
		failed = true
	}
	if len(errDump) > 0 {
		if _, err := state_machines.FromDump(errDump); err != nil {
			t.Errorf("dump returned by Do next to the rejection cannot be loaded back: %v", err)
			failed = true
		}
	}

	// the unsaved in-memory instance carries on as if nothing had happened, the saved copy is lost
	if _, _, err := inst.Do(spf.EventConfirmSignatureProposal, requests.SignatureProposalParticipantRequest{
		ParticipantId: 0, CreatedAt: now.Add(2 * time.Second),
	}); err != nil {
		t.Fatalf("in-memory instance must keep working: %v", err)
	}
	if failed {
		t.Log("in-memory instance accepted the next event, the persisted one could not even be restored")
	}
}
