// Witness for F-C18-9 (property C18, rule C18/R1 arg-length). Copy to client/services/node/ and run
//   go test ./client/services/node/ -run TestWitnessShortCommKeyCrashesNode -count=1
// The opening proposal is accepted without a signature and its Validate only requires len(PubKey) >= 10. The keys it
// registers are handed to crypto/ed25519.Verify, which panics ("ed25519: bad public key length") unless the key has
// exactly 32 bytes. After an (unsigned) proposal that registers a 10-byte key for "bob", any message that names bob as
// its sender panics the node's message handler instead of being rejected.
package node

import (
	"context"
	"encoding/json"
	"os"
	"testing"
	"time"

	"github.com/golang/mock/gomock"

	"github.com/lidofinance/dc4bc/client/config"
	"github.com/lidofinance/dc4bc/client/modules/keystore"
	"github.com/lidofinance/dc4bc/client/modules/logger"
	"github.com/lidofinance/dc4bc/client/modules/state"
	"github.com/lidofinance/dc4bc/client/services"
	"github.com/lidofinance/dc4bc/client/services/fsmservice"
	"github.com/lidofinance/dc4bc/fsm/types/requests"
	"github.com/lidofinance/dc4bc/mocks/clientMocks"
	"github.com/lidofinance/dc4bc/mocks/serviceMocks"
	"github.com/lidofinance/dc4bc/mocks/storageMocks"
	"github.com/lidofinance/dc4bc/storage"
)

func TestWitnessShortCommKeyCrashesNode(t *testing.T) {
	ctrl := gomock.NewController(t)
	defer ctrl.Finish()
	dir, _ := os.MkdirTemp("", "witness_c18_9_")
	defer os.RemoveAll(dir)
	st, err := state.NewLevelDBState(dir, "topic")
	if err != nil {
		t.Fatal(err)
	}
	ks := clientMocks.NewMockKeyStore(ctrl)
	ks.EXPECT().LoadKeys("alice", "").AnyTimes().Return(keystore.NewKeyPair(), nil)
	stg := storageMocks.NewMockStorage(ctrl)
	fsmSvc := fsmservice.NewFSMService(st, stg, "topic")
	ops := serviceMocks.NewMockOperationService(ctrl)
	ops.EXPECT().PutOperation(gomock.Any()).AnyTimes().Return(nil)
	sp := services.ServiceProvider{}
	sp.SetLogger(logger.NewLogger("alice"))
	sp.SetState(st)
	sp.SetKeyStore(ks)
	sp.SetStorage(stg)
	sp.SetFSMService(fsmSvc)
	sp.SetOperationService(ops)
	n, err := NewNode(context.Background(), &config.Config{Username: "alice", KafkaStorageConfig: &config.KafkaStorageConfig{Topic: "topic"}}, &sp)
	if err != nil {
		t.Fatal(err)
	}
	short := []byte("0123456789") // 10 bytes: passes Validate's minimum, is not an ed25519 key
	proposal, _ := json.Marshal(requests.SignatureProposalParticipantsListRequest{
		Participants: []*requests.SignatureProposalParticipantsEntry{
			{Username: "alice", PubKey: short, DkgPubKey: short},
			{Username: "bob", PubKey: short, DkgPubKey: short},
		},
		SigningThreshold: 2,
		CreatedAt:        time.Now(),
	})
	if err := n.ProcessMessage(storage.Message{ID: "m-1", DkgRoundID: "round-1", Offset: 0, Event: "event_sig_proposal_init", Data: proposal, SenderAddr: "mallory"}); err != nil {
		t.Fatalf("the opening proposal with 10-byte keys is refused (the defect needs it accepted): %v", err)
	}
	confirm, _ := json.Marshal(requests.SignatureProposalParticipantRequest{ParticipantId: 1, CreatedAt: time.Now()})
	defer func() {
		if p := recover(); p != nil {
			t.Fatalf("a message naming a sender registered with a 10-byte key panics the node's message handler: %v", p)
		}
	}()
	err = n.ProcessMessage(storage.Message{ID: "m-2", DkgRoundID: "round-1", Offset: 1, Event: "event_sig_proposal_confirm_by_participant", Data: confirm, SenderAddr: "bob", Signature: []byte("junk")})
	if err == nil {
		t.Fatal("a message with a junk signature was accepted")
	}
}
