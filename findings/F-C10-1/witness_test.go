// Witnesses for F-C10-1 and F-C10-2 (property C10, rules C10/R1 and C10/R2). Copy to client/services/node/ and run
//   go test ./client/services/node/ -run TestWitnessC10 -count=1
// Both tests assert the property and therefore FAIL on the current tree:
//  F-C10-1: a message signed by alice with payload {ParticipantId: bob's id} is accepted and changes bob's status
//           (the sender name is used for the key lookup only; nothing relates it to request.ParticipantId);
//  F-C10-2: bob's genuine confirmation for round 1, re-posted byte for byte under round 2's identifier, is accepted
//           in round 2 (the signature covers Data only, not the round or the event).
package node

import (
	"context"
	"crypto/ed25519"
	"encoding/json"
	"os"
	"testing"
	"time"

	"github.com/golang/mock/gomock"
	"github.com/google/uuid"

	"github.com/lidofinance/dc4bc/client/config"
	"github.com/lidofinance/dc4bc/client/modules/keystore"
	"github.com/lidofinance/dc4bc/client/modules/logger"
	"github.com/lidofinance/dc4bc/client/modules/state"
	oprepo "github.com/lidofinance/dc4bc/client/repositories/operation"
	"github.com/lidofinance/dc4bc/client/services"
	"github.com/lidofinance/dc4bc/client/services/fsmservice"
	"github.com/lidofinance/dc4bc/client/services/operation"
	spf "github.com/lidofinance/dc4bc/fsm/state_machines/signature_proposal_fsm"
	"github.com/lidofinance/dc4bc/fsm/types/requests"
	"github.com/lidofinance/dc4bc/mocks/clientMocks"
	"github.com/lidofinance/dc4bc/mocks/storageMocks"
	"github.com/lidofinance/dc4bc/storage"
)

type c10env struct {
	node       NodeService
	fsm        fsmservice.FSMService
	alice, bob *keystore.KeyPair
}

func newC10Env(t *testing.T) *c10env {
	ctrl := gomock.NewController(t)
	t.Cleanup(ctrl.Finish)
	dir, _ := os.MkdirTemp("", "witness_c10_")
	t.Cleanup(func() { os.RemoveAll(dir) })
	st, err := state.NewLevelDBState(dir, "topic")
	if err != nil {
		t.Fatal(err)
	}
	e := &c10env{alice: keystore.NewKeyPair(), bob: keystore.NewKeyPair()}
	ks := clientMocks.NewMockKeyStore(ctrl)
	ks.EXPECT().LoadKeys("alice", "").AnyTimes().Return(e.alice, nil)
	stg := storageMocks.NewMockStorage(ctrl)
	repo, err := oprepo.NewOperationRepo(st, "topic")
	if err != nil {
		t.Fatal(err)
	}
	sp := services.ServiceProvider{}
	sp.SetLogger(logger.NewLogger("alice"))
	sp.SetState(st)
	sp.SetKeyStore(ks)
	sp.SetStorage(stg)
	e.fsm = fsmservice.NewFSMService(st, stg, "topic")
	sp.SetFSMService(e.fsm)
	sp.SetOperationService(operation.NewOperationService(repo))
	e.node, err = NewNode(context.Background(), &config.Config{Username: "alice", KafkaStorageConfig: &config.KafkaStorageConfig{Topic: "topic"}}, &sp)
	if err != nil {
		t.Fatal(err)
	}
	return e
}

func (e *c10env) open(t *testing.T, round string) {
	data, _ := json.Marshal(requests.SignatureProposalParticipantsListRequest{
		Participants: []*requests.SignatureProposalParticipantsEntry{
			{Username: "alice", PubKey: e.alice.Pub, DkgPubKey: make([]byte, 128)},
			{Username: "bob", PubKey: e.bob.Pub, DkgPubKey: make([]byte, 128)},
			{Username: "carol", PubKey: keystore.NewKeyPair().Pub, DkgPubKey: make([]byte, 128)},
		},
		CreatedAt: time.Now(), SigningThreshold: 2,
	})
	m := storage.Message{ID: uuid.New().String(), DkgRoundID: round, Event: string(spf.EventInitProposal), Data: data, SenderAddr: "alice"}
	m.Signature = ed25519.Sign(e.alice.Priv, m.Bytes())
	if err := e.node.ProcessMessage(m); err != nil {
		t.Fatal(err)
	}
}

func (e *c10env) status(t *testing.T, round string, id int) string {
	inst, err := e.fsm.GetFSMInstance(round, false)
	if err != nil {
		t.Fatal(err)
	}
	return inst.FSMDump().Payload.SignatureProposalPayload.Quorum[id].Status.String()
}

func TestWitnessC10SenderSpeaksForAnotherParticipant(t *testing.T) {
	e := newC10Env(t)
	e.open(t, "round-one-identifier")
	data, _ := json.Marshal(requests.SignatureProposalParticipantRequest{ParticipantId: 1 /* bob */, CreatedAt: time.Now()})
	m := storage.Message{ID: uuid.New().String(), DkgRoundID: "round-one-identifier", Event: string(spf.EventDeclineProposal), Data: data, SenderAddr: "alice"}
	m.Signature = ed25519.Sign(e.alice.Priv, m.Bytes()) // genuinely signed by alice, in alice's name
	err := e.node.ProcessMessage(m)
	if err == nil && e.status(t, "round-one-identifier", 1) != "SigConfirmationAwaitConfirmation" {
		t.Fatalf("alice declined in bob's name: bob's status is now %s", e.status(t, "round-one-identifier", 1))
	}
}

func TestWitnessC10MessageReplayedIntoAnotherRound(t *testing.T) {
	e := newC10Env(t)
	e.open(t, "round-one-identifier")
	e.open(t, "round-two-identifier")
	data, _ := json.Marshal(requests.SignatureProposalParticipantRequest{ParticipantId: 1, CreatedAt: time.Now()})
	genuine := storage.Message{ID: uuid.New().String(), DkgRoundID: "round-one-identifier", Event: string(spf.EventConfirmSignatureProposal), Data: data, SenderAddr: "bob"}
	genuine.Signature = ed25519.Sign(e.bob.Priv, genuine.Bytes())
	if err := e.node.ProcessMessage(genuine); err != nil {
		t.Fatal(err)
	}
	replay := genuine // byte-for-byte copy of Data, Signature, SenderAddr — re-posted by anyone under another round id
	replay.ID = uuid.New().String()
	replay.DkgRoundID = "round-two-identifier"
	err := e.node.ProcessMessage(replay)
	if err == nil && e.status(t, "round-two-identifier", 1) != "SigConfirmationAwaitConfirmation" {
		t.Fatalf("bob's confirmation for round one took effect in round two: status %s", e.status(t, "round-two-identifier", 1))
	}
}
