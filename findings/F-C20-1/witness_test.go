// Witness for F-C20-1 (property C20, rule C20/R1 delimited; also C09: the hash is the only authentication of a reinit message).
// Copy to: client/services/node/demo_test.go   (package node)
// Run:     export GOFLAGS=-mod=mod GOPROXY=off GOSUMDB=off GOTOOLCHAIN=local
//          go test -count=1 ./client/services/node/ -run TestReinitHashAmbiguityLetsOneParticipantRegisterHisKeyForAnother -v
//
// The reinitialisation message is not signed; it is authenticated only by the hash that every operator compares
// out of band (HowToReinit.md: `dc4bc_cli get_reinit_dkg_file_hash reinit.json` vs. the "Hash of the reinit DKG
// message" shown with the reinit operation). types.CalcStartReInitDKGMessageHash concatenates the variable-length
// fields of the message without any length prefix or separator, so different messages have the same hash.
// The participant who posts the reinit message ("mallory", listed before "bob") moves the field boundaries of the
// participants list: the node computes exactly the agreed hash, but registers mallory's key as the communication
// key of bob. Afterwards the node acts on messages "from bob" that are signed with mallory's key.
package node

import (
	"bytes"
	"context"
	"crypto/ed25519"
	"encoding/json"
	"path/filepath"
	"testing"
	"time"

	"github.com/lidofinance/dc4bc/client/config"
	"github.com/lidofinance/dc4bc/client/modules/keystore"
	"github.com/lidofinance/dc4bc/client/modules/logger"
	"github.com/lidofinance/dc4bc/client/modules/state"
	oprepo "github.com/lidofinance/dc4bc/client/repositories/operation"
	sigrepo "github.com/lidofinance/dc4bc/client/repositories/signature"
	"github.com/lidofinance/dc4bc/client/services"
	"github.com/lidofinance/dc4bc/client/services/fsmservice"
	"github.com/lidofinance/dc4bc/client/services/operation"
	"github.com/lidofinance/dc4bc/client/services/signature"
	"github.com/lidofinance/dc4bc/client/types"
	spf "github.com/lidofinance/dc4bc/fsm/state_machines/signature_proposal_fsm"
	"github.com/lidofinance/dc4bc/fsm/types/requests"
	"github.com/lidofinance/dc4bc/storage"
	"github.com/lidofinance/dc4bc/storage/file_storage"
)

// a real node: LevelDB state, real FSM/operation/signature services, file board, LevelDB key store
func h09NewNode(t *testing.T, username string) (NodeService, *services.ServiceProvider) {
	t.Helper()
	dir := t.TempDir()
	const topic = "topic"

	st, err := state.NewLevelDBState(filepath.Join(dir, "state"), topic)
	if err != nil {
		t.Fatal(err)
	}
	stg, err := file_storage.NewFileStorage(filepath.Join(dir, "board"))
	if err != nil {
		t.Fatal(err)
	}
	ks, err := keystore.NewLevelDBKeyStore(username, filepath.Join(dir, "keys"))
	if err != nil {
		t.Fatal(err)
	}
	if err := ks.PutKeys(username, keystore.NewKeyPair()); err != nil {
		t.Fatal(err)
	}
	opRepo, err := oprepo.NewOperationRepo(st, topic)
	if err != nil {
		t.Fatal(err)
	}

	sp := &services.ServiceProvider{}
	sp.SetLogger(logger.NewLogger(username))
	sp.SetState(st)
	sp.SetStorage(stg)
	sp.SetKeyStore(ks)
	sp.SetFSMService(fsmservice.NewFSMService(st, stg, topic))
	sp.SetOperationService(operation.NewOperationService(opRepo))
	sp.SetSignatureService(signature.NewSignatureService(sigrepo.NewSignatureRepo(st)))

	n, err := NewNode(context.Background(), &config.Config{
		Username:           username,
		KafkaStorageConfig: &config.KafkaStorageConfig{Topic: topic},
	}, sp)
	if err != nil {
		t.Fatal(err)
	}
	return n, sp
}

func h09Cat(parts ...[]byte) []byte {
	return bytes.Join(parts, nil)
}

func TestReinitHashAmbiguityLetsOneParticipantRegisterHisKeyForAnother(t *testing.T) {
	const roundID = "d62c6c478d39d4239c6c5ceb0aea6792"

	// old (pre-reinit) and new communication keys of the three participants
	oldM, oldB, oldC := keystore.NewKeyPair(), keystore.NewKeyPair(), keystore.NewKeyPair()
	newM, newB, newC := keystore.NewKeyPair(), keystore.NewKeyPair(), keystore.NewKeyPair()
	dkgM, dkgB, dkgC := bytes.Repeat([]byte{0xA1}, 128), bytes.Repeat([]byte{0xB2}, 128), bytes.Repeat([]byte{0xC3}, 128)

	// the old append-only log: the proposal that opened the round (enough for the demonstration)
	proposal, err := json.Marshal(requests.SignatureProposalParticipantsListRequest{
		Participants: []*requests.SignatureProposalParticipantsEntry{
			{Username: "mallory", PubKey: oldM.Pub, DkgPubKey: dkgM},
			{Username: "bob", PubKey: oldB.Pub, DkgPubKey: dkgB},
			{Username: "carol", PubKey: oldC.Pub, DkgPubKey: dkgC},
		},
		SigningThreshold: 2,
		CreatedAt:        time.Now(),
	})
	if err != nil {
		t.Fatal(err)
	}
	opening := storage.Message{
		ID: "m0", DkgRoundID: roundID, Offset: 0, Event: string(spf.EventInitProposal),
		Data: proposal, SenderAddr: "mallory",
	}
	opening.Signature = ed25519.Sign(oldM.Priv, opening.Bytes())

	// what every participant generates with dkg_reinitializer from the log and keys.json, and whose hash they all compare
	genuine, err := types.GenerateReDKGMessage([]storage.Message{opening}, map[string][]byte{
		"mallory": newM.Pub, "bob": newB.Pub, "carol": newC.Pub,
	})
	if err != nil {
		t.Fatal(err)
	}
	genuineBz, err := json.Marshal(genuine)
	if err != nil {
		t.Fatal(err)
	}
	agreedHash, err := types.CalcStartReInitDKGMessageHash(genuineBz)
	if err != nil {
		t.Fatal(err)
	}

	// what mallory, chosen to post the message, really posts: the entries of mallory and bob are merged into one entry
	// named "bob" whose new key is mallory's new key; the bytes in between are moved to the unused old-key field
	forged := types.ReDKG{
		DKGID:     genuine.DKGID,
		Threshold: genuine.Threshold,
		Participants: []types.Participant{
			{
				NewCommPubKey: newM.Pub,
				OldCommPubKey: h09Cat(oldM.Pub, dkgM, []byte("mallory"), newB.Pub, oldB.Pub),
				DKGPubKey:     dkgB,
				Name:          "bob",
			},
			genuine.Participants[2], // carol, unchanged
		},
		Messages: genuine.Messages,
	}
	forgedBz, err := json.Marshal(forged)
	if err != nil {
		t.Fatal(err)
	}
	forgedHash, err := types.CalcStartReInitDKGMessageHash(forgedBz)
	if err != nil {
		t.Fatal(err)
	}
	if !bytes.Equal(agreedHash, forgedHash) {
		t.Skipf("premise does not hold, the hashes differ: %x vs %x", agreedHash, forgedHash)
	}
	t.Logf("genuine and forged reinit messages have the same confirmation hash %x", agreedHash)

	// carol's freshly set up node receives the forged message from the board
	node, sp := h09NewNode(t, "carol")
	reinit := storage.Message{
		ID: "r0", DkgRoundID: roundID, Offset: 0, Event: string(types.ReinitDKG),
		Data: forgedBz, SenderAddr: "mallory",
	}
	if err := node.ProcessMessage(reinit); err != nil {
		t.Fatalf("reinit refused: %v", err)
	}

	// carol compares the hash shown with the reinit operation with the hash agreed out of band: they match
	ops, err := sp.GetOperationService().GetOperations()
	if err != nil {
		t.Fatal(err)
	}
	var shown []byte
	for _, op := range ops {
		if string(op.Type) == string(types.ReinitDKG) {
			shown = op.ExtraData
		}
	}
	if !bytes.Equal(shown, agreedHash) {
		t.Skipf("premise does not hold: the node shows hash %x, agreed %x", shown, agreedHash)
	}

	inst, err := sp.GetFSMService().GetFSMInstance(roundID, false)
	if err != nil {
		t.Fatal(err)
	}
	bobKey, err := inst.GetPubKeyByUsername("bob")
	if err != nil {
		t.Fatal(err)
	}
	bobID, err := inst.GetIDByUsername("bob")
	if err != nil {
		t.Fatal(err)
	}
	before, _ := inst.Dump()

	// a message in the name of bob, signed with MALLORY's key
	data, err := json.Marshal(requests.SignatureProposalParticipantRequest{ParticipantId: bobID, CreatedAt: time.Now()})
	if err != nil {
		t.Fatal(err)
	}
	fake := storage.Message{
		ID: "m1", DkgRoundID: roundID, Offset: 1, Event: string(spf.EventDeclineProposal),
		Data: data, SenderAddr: "bob",
	}
	fake.Signature = ed25519.Sign(newM.Priv, fake.Bytes())
	procErr := node.ProcessMessage(fake)

	inst2, err := sp.GetFSMService().GetFSMInstance(roundID, false)
	if err != nil {
		t.Fatal(err)
	}
	after, _ := inst2.Dump()

	if !bytes.Equal(bobKey, newB.Pub) {
		t.Errorf("the operators confirmed hash %x of a message that gives bob the key %x,\n"+
			"the node shows the same hash but registered %x for bob (mallory's key: %v)",
			agreedHash, []byte(newB.Pub), []byte(bobKey), bytes.Equal(bobKey, newM.Pub))
	}
	if procErr == nil || !bytes.Equal(before, after) {
		t.Errorf("a message in the name of bob signed with mallory's key was acted upon: err=%v, round changed=%v, state now %s",
			procErr, !bytes.Equal(before, after), inst2.FSMDump().State)
	}
}
