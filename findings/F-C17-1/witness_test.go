// Witness for F-C17-1 (properties C17/R2 and C18). Copy to fsm/types/requests/ and run
//   go test ./fsm/types/requests/ -run TestWitnessNegativeBakedPosition
// On the defective tree a negative position panics (index out of range) instead of returning an error; it is
// reachable from the board: SigningTask.Validate accepts RangeStart < 0 and TasksToMessages iterates from it.
package requests

import "testing"

func TestWitnessNegativeBakedPosition(t *testing.T) {
	defer func() {
		if r := recover(); r != nil {
			t.Fatalf("out-of-range position crashed instead of being refused: %v", r)
		}
	}()
	if _, err := ReconstructBakedMessage(-1); err == nil {
		t.Fatal("position -1 yielded a message")
	}
	task := SigningTask{MessageID: "m", RangeStart: -2, RangeEnd: 1}
	if err := task.Validate(); err == nil {
		if _, err := TasksToMessages([]SigningTask{task}); err == nil {
			t.Fatal("a range starting at a negative position was expanded")
		}
	}
}
