// Witness for F-C10-3 (rule C10/R8). Copy to: client/services/node/
// Run:     go test -count=1 ./client/services/node/ -run TestH19_ReinitMessageOverwritesStoredRound -v
//
// Property C19: a stored round, once loaded back, is the round that was saved.
//
// An (unauthenticated) `reinit_dkg` board message whose outer DkgRoundID names an EXISTING round
// while the dkg_id in its body names a round that does not exist yet makes reinitDKG() load/create
// the instance of the body's round and save it under the key of the outer round:
//
//	fsmInstance, _ := s.fsmService.GetFSMInstance(req.DKGID, true)
//	...
//	s.fsmService.SaveFSM(message.DkgRoundID, fsmDump)
//
// The dump of the existing round is replaced by the dump of another round. Loading the victim
// round afterwards yields a different round (other TransactionId, state "__idle", attacker chosen
// communication keys): its state, its quorum and its public keys are gone.
package node

import (
	"context"
	"encoding/json"
	"os"
	"testing"
	"time"

	"github.com/golang/mock/gomock"
	"github.com/google/uuid"
	"github.com/stretchr/testify/require"

	"github.com/lidofinance/dc4bc/client/config"
	"github.com/lidofinance/dc4bc/client/modules/keystore"
	"github.com/lidofinance/dc4bc/client/modules/logger"
	"github.com/lidofinance/dc4bc/client/modules/state"
	oprepo "github.com/lidofinance/dc4bc/client/repositories/operation"
	"github.com/lidofinance/dc4bc/client/services"
	"github.com/lidofinance/dc4bc/client/services/fsmservice"
	"github.com/lidofinance/dc4bc/client/services/operation"
	"github.com/lidofinance/dc4bc/client/types"
	spf "github.com/lidofinance/dc4bc/fsm/state_machines/signature_proposal_fsm"
	"github.com/lidofinance/dc4bc/fsm/types/requests"
	"github.com/lidofinance/dc4bc/mocks/clientMocks"
	"github.com/lidofinance/dc4bc/mocks/storageMocks"
	"github.com/lidofinance/dc4bc/storage"
)

func TestH19_ReinitMessageOverwritesStoredRound(t *testing.T) {
	var (
		ctx  = context.Background()
		req  = require.New(t)
		ctrl = gomock.NewController(t)
	)
	defer ctrl.Finish()

	const (
		userName    = "node_0"
		topic       = "topic"
		victimRound = "0000000000000000000000000000000000000000000000000000000000000001"
		otherRound  = "ffffffffffffffffffffffffffffffffffffffffffffffffffffffffffffffff"
	)

	dir, err := os.MkdirTemp("", "h19_reinit_")
	req.NoError(err)
	defer os.RemoveAll(dir)

	// real state, real FSM service, real operation service; only the key store and the board are the shipped mocks
	st, err := state.NewLevelDBState(dir, topic)
	req.NoError(err)
	stg := storageMocks.NewMockStorage(ctrl)
	fsmSvc := fsmservice.NewFSMService(st, stg, topic)
	opRepo, err := oprepo.NewOperationRepo(st, topic)
	req.NoError(err)
	opSvc := operation.NewOperationService(opRepo)

	keyStore := clientMocks.NewMockKeyStore(ctrl)
	nodeKeys := keystore.NewKeyPair()
	keyStore.EXPECT().LoadKeys(userName, "").AnyTimes().Return(nodeKeys, nil)

	sp := services.ServiceProvider{}
	sp.SetLogger(logger.NewLogger(userName))
	sp.SetState(st)
	sp.SetKeyStore(keyStore)
	sp.SetStorage(stg)
	sp.SetFSMService(fsmSvc)
	sp.SetOperationService(opSvc)

	cfg := config.Config{Username: userName, KafkaStorageConfig: &config.KafkaStorageConfig{Topic: topic}}
	node, err := NewNode(ctx, &cfg, &sp)
	req.NoError(err)

	// 1. an honest round is opened through the normal channel (a board message)
	participants := []*requests.SignatureProposalParticipantsEntry{
		{Username: userName, PubKey: nodeKeys.Pub, DkgPubKey: make([]byte, 128)},
		{Username: "node_1", PubKey: keystore.NewKeyPair().Pub, DkgPubKey: make([]byte, 128)},
		{Username: "node_2", PubKey: keystore.NewKeyPair().Pub, DkgPubKey: make([]byte, 128)},
	}
	initBz, err := json.Marshal(requests.SignatureProposalParticipantsListRequest{
		Participants:     participants,
		SigningThreshold: 2,
		CreatedAt:        time.Now(),
	})
	req.NoError(err)
	req.NoError(node.ProcessMessage(storage.Message{
		ID:         uuid.New().String(),
		DkgRoundID: victimRound,
		Event:      string(spf.EventInitProposal),
		Data:       initBz,
		SenderAddr: userName,
	}))

	list, err := fsmSvc.GetFSMList()
	req.NoError(err)
	req.Equal(map[string]string{victimRound: string(spf.StateAwaitParticipantsConfirmations)}, list)

	before, err := fsmSvc.GetFSMInstance(victimRound, false)
	req.NoError(err)
	beforeDump, err := before.Dump()
	req.NoError(err)
	honestKey, err := before.GetPubKeyByUsername("node_1")
	req.NoError(err)

	// 2. anybody who can write to the board posts a reinit message: it is not signed by anyone the node knows,
	//    its outer round id is the victim round, the dkg_id of its body is a round the node has never seen
	attackerKey := keystore.NewKeyPair().Pub
	reinitBz, err := json.Marshal(types.ReDKG{
		DKGID:     otherRound,
		Threshold: 2,
		Participants: []types.Participant{
			{Name: "node_1", NewCommPubKey: attackerKey, OldCommPubKey: attackerKey, DKGPubKey: make([]byte, 128)},
		},
	})
	req.NoError(err)
	// (refusing the message is fine; what matters is that the victim round stays what it was)
	if perr := node.ProcessMessage(storage.Message{
		ID:         uuid.New().String(),
		DkgRoundID: victimRound,
		Event:      string(types.ReinitDKG),
		Data:       reinitBz,
		SenderAddr: "mallory",
		Signature:  []byte("whatever"),
	}); perr != nil {
		t.Logf("the reinit message was refused: %v", perr)
	}

	// 3. the stored victim round must still be the round that was saved
	after, err := fsmSvc.GetFSMInstance(victimRound, false)
	req.NoError(err)
	afterDump, err := after.Dump()
	req.NoError(err)
	afterState, err := after.State()
	req.NoError(err)
	afterKey, _ := after.GetPubKeyByUsername("node_1")

	list, err = fsmSvc.GetFSMList()
	req.NoError(err)
	t.Logf("round list after the reinit message: %v", list)
	t.Logf("victim round before: %s", beforeDump)
	t.Logf("victim round after : %s", afterDump)

	if after.Id() != victimRound {
		t.Errorf("round stored under %q restores as round %q", victimRound, after.Id())
	}
	if afterState != spf.StateAwaitParticipantsConfirmations {
		t.Errorf("stored round changed state without any FSM event: %q -> %q", spf.StateAwaitParticipantsConfirmations, afterState)
	}
	if string(afterKey) != string(honestKey) {
		t.Errorf("communication key of node_1 in the stored round was replaced: %x -> %x", honestKey, afterKey)
	}
	if string(beforeDump) != string(afterDump) {
		t.Errorf("dump of the victim round was replaced by the dump of another round")
	}
}
