// Witness for F-C10-3 (rule C10/R8; second and third shape of the same defect).
// FINDING 1 (property C18, "rejected input is a no-op"):
// a reinit_dkg board message without a dkg_id is REJECTED by the node ("failed to reinitDKG"),
// but only after the node has (1) replayed and persisted the embedded key generation messages as a new round and
// (2) stored a reinit operation with an empty round id. The genuine reinit message posted afterwards is then
// silently skipped ("round exists"), so the node never gets a usable reinit operation.
// No signature is needed for a reinit_dkg message: any writer of the board can do this.
//
// Copy to:  client/services/node/demo_c18_reinit_test.go   (package node)
// Run:      export GOFLAGS=-mod=mod GOPROXY=off GOSUMDB=off GOTOOLCHAIN=local
//
//	go test -count=1 ./client/services/node/ -run 'TestC18ReinitWithoutRoundIDIsRejectedButLeavesATrace|TestC18RejectedReinitAbortsALiveRound' -v
//
// Both tests FAIL on the unmodified code (the durable state differs after a rejected message).
package node

import (
	"context"
	"crypto/ed25519"
	"encoding/json"
	"fmt"
	"path/filepath"
	"runtime/debug"
	"testing"
	"time"

	"github.com/google/uuid"

	"github.com/lidofinance/dc4bc/client/config"
	"github.com/lidofinance/dc4bc/client/modules/keystore"
	"github.com/lidofinance/dc4bc/client/modules/logger"
	"github.com/lidofinance/dc4bc/client/modules/state"
	oprepo "github.com/lidofinance/dc4bc/client/repositories/operation"
	sigrepo "github.com/lidofinance/dc4bc/client/repositories/signature"
	"github.com/lidofinance/dc4bc/client/services"
	"github.com/lidofinance/dc4bc/client/services/fsmservice"
	"github.com/lidofinance/dc4bc/client/services/operation"
	"github.com/lidofinance/dc4bc/client/services/signature"
	"github.com/lidofinance/dc4bc/client/types"
	dpf "github.com/lidofinance/dc4bc/fsm/state_machines/dkg_proposal_fsm"
	spf "github.com/lidofinance/dc4bc/fsm/state_machines/signature_proposal_fsm"
	"github.com/lidofinance/dc4bc/fsm/types/requests"
	"github.com/lidofinance/dc4bc/storage"
	"github.com/lidofinance/dc4bc/storage/file_storage"
)

func TestC18ReinitWithoutRoundIDIsRejectedButLeavesATrace(t *testing.T) {
	h := f1New(t, 3)

	// the genuine reinit message, built by the project's own generator from a genuine board log
	newKeys := map[string][]byte{}
	for i, n := range h.names {
		newKeys[n] = h.keys[i].Pub
	}
	reDKG, err := types.GenerateReDKGMessage(h.genuineLog(), newKeys)
	if err != nil {
		t.Fatal(err)
	}
	genuineData, err := json.Marshal(reDKG)
	if err != nil {
		t.Fatal(err)
	}

	// structure-aware mutation: delete the "dkg_id" field
	var tree map[string]interface{}
	if err := json.Unmarshal(genuineData, &tree); err != nil {
		t.Fatal(err)
	}
	delete(tree, "dkg_id")
	hostileData, _ := json.Marshal(tree)

	// the sender is not a participant and the message carries no signature at all
	hostile := storage.Message{
		ID:         uuid.New().String(),
		DkgRoundID: h.round,
		Event:      string(types.ReinitDKG),
		Data:       hostileData,
		SenderAddr: "mallory",
	}

	before := h.snapshot()
	perr, panicked := h.process(hostile)
	if panicked != nil {
		t.Fatalf("the node panicked: %v", panicked)
	}
	if perr == nil {
		t.Fatalf("precondition: the message without dkg_id is expected to be rejected")
	}
	t.Logf("the node rejected the message: %v", perr)
	after := h.snapshot()

	failed := false
	if diff := f1Diff(before, after); len(diff) > 0 {
		failed = true
		t.Errorf("C18 violated: the message was rejected, but these durable keys changed: %v", diff)
		t.Logf("round %s now exists with FSM state %q", h.round, h.fsmState())
		ops, _ := h.opSvc.GetOperations()
		for _, op := range ops {
			t.Logf("stored operation: id=%s type=%s DKGIdentifier=%q", op.ID, op.Type, op.DKGIdentifier)
		}
	}

	// consequence: the genuine reinit message is now a silent no-op, the node never gets the reinit operation of the round
	genuine := hostile
	genuine.ID = uuid.New().String()
	genuine.Data = genuineData
	if err, p := h.process(genuine); err != nil || p != nil {
		t.Fatalf("genuine reinit message: err=%v panic=%v", err, p)
	}
	ops, err := h.opSvc.GetOperations()
	if err != nil {
		t.Fatal(err)
	}
	found := false
	for _, op := range ops {
		if op.Type == types.OperationType(types.ReinitDKG) && op.DKGIdentifier == h.round {
			found = true
		}
	}
	if !found {
		failed = true
		t.Errorf("consequence: after the rejected message the genuine reinit message was skipped, "+
			"there is no reinit operation for round %s (operations: %d)", h.round, len(ops))
	}
	if !failed {
		t.Log("ok: rejected reinit message was a no-op")
	}
}

// The same rejected message can also carry embedded messages for an UNRELATED, live round: they are applied with the
// signature check switched off (reinitDKG sets SkipCommKeysVerification) before the reinit message itself is refused.
// Here an unsigned, rejected reinit message from a non-participant aborts a running key generation.
func TestC18RejectedReinitAbortsALiveRound(t *testing.T) {
	h := f1New(t, 3)
	// a live round in the commits phase (opening proposal + three confirmations)
	for _, m := range h.genuineLog()[:4] {
		h.must(m)
	}
	if st := h.fsmState(); st != string(dpf.StateDkgCommitsAwaitConfirmations) {
		t.Fatalf("precondition: unexpected state %s", st)
	}

	// forged "node_2 reports a commit error", no signature
	forgedData, _ := json.Marshal(requests.DKGProposalConfirmationErrorRequest{
		ParticipantId: 2, Error: requests.NewFSMError(fmt.Errorf("forged")), CreatedAt: h.now})
	forged := storage.Message{ID: uuid.New().String(), DkgRoundID: h.round, Event: string(dpf.EventDKGCommitConfirmationError),
		Data: forgedData, SenderAddr: h.names[2]}
	hostileData, _ := json.Marshal(map[string]interface{}{"messages": []storage.Message{forged}}) // no dkg_id
	hostile := storage.Message{ID: uuid.New().String(), DkgRoundID: "some-other-round-0123456789abcdef", Event: string(types.ReinitDKG),
		Data: hostileData, SenderAddr: "mallory"}

	before := h.snapshot()
	perr, panicked := h.process(hostile)
	if panicked != nil {
		t.Fatalf("the node panicked: %v", panicked)
	}
	if perr == nil {
		t.Fatalf("precondition: the message without dkg_id is expected to be rejected")
	}
	t.Logf("the node rejected the message: %v", perr)
	if diff := f1Diff(before, h.snapshot()); len(diff) > 0 {
		t.Errorf("C18 violated: the message was rejected, but these durable keys changed: %v; the live round is now in state %q",
			diff, h.fsmState())
	}
}

// ---------------------------------------------------------------------------
// harness: a real node (LevelDB state, file board, real FSM/operation/signature
// services, real keystore); nothing of the code under test is mocked
// ---------------------------------------------------------------------------

const f1Topic = "topic"

type f1Harness struct {
	t      testing.TB
	node   NodeService
	st     state.State
	fsmSvc fsmservice.FSMService
	opSvc  operation.OperationService
	names  []string
	keys   []*keystore.KeyPair
	round  string
	now    time.Time
}

func f1New(t testing.TB, n int) *f1Harness {
	dir := t.TempDir()
	st, err := state.NewLevelDBState(filepath.Join(dir, "state"), f1Topic)
	if err != nil {
		t.Fatal(err)
	}
	stg, err := file_storage.NewFileStorage(filepath.Join(dir, "board"), filepath.Join(dir, "lock"))
	if err != nil {
		t.Fatal(err)
	}
	h := &f1Harness{t: t, st: st, round: "0123456789abcdef0123456789abcdef", now: time.Now()}
	for i := 0; i < n; i++ {
		h.names = append(h.names, fmt.Sprintf("node_%d", i))
		h.keys = append(h.keys, keystore.NewKeyPair())
	}
	ks, err := keystore.NewLevelDBKeyStore(h.names[0], filepath.Join(dir, "ks"))
	if err != nil {
		t.Fatal(err)
	}
	if err := ks.PutKeys(h.names[0], h.keys[0]); err != nil {
		t.Fatal(err)
	}
	opRepo, err := oprepo.NewOperationRepo(st, f1Topic)
	if err != nil {
		t.Fatal(err)
	}
	h.opSvc = operation.NewOperationService(opRepo)
	h.fsmSvc = fsmservice.NewFSMService(st, stg, f1Topic)
	sp := services.ServiceProvider{}
	sp.SetLogger(logger.NewLogger(h.names[0]))
	sp.SetState(st)
	sp.SetKeyStore(ks)
	sp.SetStorage(stg)
	sp.SetFSMService(h.fsmSvc)
	sp.SetOperationService(h.opSvc)
	sp.SetSignatureService(signature.NewSignatureService(sigrepo.NewSignatureRepo(st)))
	cfg := config.Config{Username: h.names[0], KafkaStorageConfig: &config.KafkaStorageConfig{Topic: f1Topic}}
	h.node, err = NewNode(context.Background(), &cfg, &sp)
	if err != nil {
		t.Fatal(err)
	}
	return h
}

// msg builds a board message signed by participant #sender
func (h *f1Harness) msg(sender int, event string, v interface{}) storage.Message {
	data, ok := v.([]byte)
	if !ok {
		var err error
		if data, err = json.Marshal(v); err != nil {
			h.t.Fatal(err)
		}
	}
	m := storage.Message{ID: uuid.New().String(), DkgRoundID: h.round, Event: event, Data: data, SenderAddr: h.names[sender]}
	m.Signature = ed25519.Sign(h.keys[sender].Priv, m.Bytes())
	return m
}

// process feeds a message to the node the way Poll does, a panic is reported instead of killing the test binary
func (h *f1Harness) process(m storage.Message) (err error, panicked interface{}) {
	defer func() {
		if r := recover(); r != nil {
			panicked = fmt.Sprintf("%v\n%s", r, debug.Stack())
		}
	}()
	return h.node.ProcessMessage(m), nil
}

func (h *f1Harness) must(m storage.Message) {
	if err, p := h.process(m); err != nil || p != nil {
		h.t.Fatalf("genuine message %s was not accepted: err=%v panic=%v", m.Event, err, p)
	}
}

// snapshot returns every durable key of the node except for the read offset
func (h *f1Harness) snapshot() map[string]string {
	out := map[string]string{}
	for _, k := range []string{
		f1Topic + "_" + fsmservice.FSMStateKey,
		f1Topic + "_" + oprepo.OperationsKey,
		f1Topic + "_" + oprepo.DeletedOperationsKey,
		sigrepo.SignaturesKeyPrefix + "_" + h.round,
		sigrepo.SignaturesKeyPrefix + "_",
	} {
		bz, err := h.st.Get(k)
		if err != nil {
			h.t.Fatal(err)
		}
		out[k] = string(bz)
	}
	return out
}

func f1Diff(a, b map[string]string) []string {
	var keys []string
	for k := range a {
		if a[k] != b[k] {
			keys = append(keys, k)
		}
	}
	return keys
}

func (h *f1Harness) fsmState() string {
	inst, err := h.fsmSvc.GetFSMInstance(h.round, false)
	if err != nil {
		return "<no round: " + err.Error() + ">"
	}
	s, _ := inst.State()
	return string(s)
}

// genuineLog is the board log of a complete, genuine key generation of the round (the node FSM does not look
// inside commits/deals/responses, so opaque bytes are enough here)
func (h *f1Harness) genuineLog() []storage.Message {
	var msgs []storage.Message
	add := func(m storage.Message) {
		m.Offset = uint64(len(msgs))
		msgs = append(msgs, m)
	}
	prop := requests.SignatureProposalParticipantsListRequest{SigningThreshold: 2, CreatedAt: h.now}
	for i := range h.names {
		prop.Participants = append(prop.Participants, &requests.SignatureProposalParticipantsEntry{
			Username: h.names[i], PubKey: h.keys[i].Pub, DkgPubKey: make([]byte, 48)})
	}
	add(h.msg(0, string(spf.EventInitProposal), prop))
	for i := range h.names {
		add(h.msg(i, string(spf.EventConfirmSignatureProposal), requests.SignatureProposalParticipantRequest{ParticipantId: i, CreatedAt: h.now}))
	}
	for i := range h.names {
		add(h.msg(i, string(dpf.EventDKGCommitConfirmationReceived), requests.DKGProposalCommitConfirmationRequest{ParticipantId: i, Commit: []byte("commit"), CreatedAt: h.now}))
	}
	for i := range h.names {
		add(h.msg(i, string(dpf.EventDKGDealConfirmationReceived), requests.DKGProposalDealConfirmationRequest{ParticipantId: i, Deal: []byte("deal"), CreatedAt: h.now}))
	}
	for i := range h.names {
		add(h.msg(i, string(dpf.EventDKGResponseConfirmationReceived), requests.DKGProposalResponseConfirmationRequest{ParticipantId: i, Response: []byte("response"), CreatedAt: h.now}))
	}
	for i := range h.names {
		add(h.msg(i, string(dpf.EventDKGMasterKeyConfirmationReceived), requests.DKGProposalMasterKeyConfirmationRequest{ParticipantId: i, MasterKey: []byte("masterkey"), PubPolyBz: []byte(`{"Commitments":[]}`), CreatedAt: h.now}))
	}
	return msgs
}
