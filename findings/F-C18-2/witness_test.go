// Witness for F-C18-2 (property C18, rule C18/R2). Copy to client/services/node/ and run
//   go test ./client/services/node/ -run TestWitnessRejectedMessageLeavesJunkRound -count=1
// A board message for an unknown round that is rejected (it cannot be verified: no keys are registered) still changes the
// node's durable state: GetFSMInstance(createIfMissing) persists a fresh empty round before the message is verified.
package node

import (
	"context"
	"os"
	"testing"

	"github.com/golang/mock/gomock"

	"github.com/lidofinance/dc4bc/client/config"
	"github.com/lidofinance/dc4bc/client/modules/keystore"
	"github.com/lidofinance/dc4bc/client/modules/logger"
	"github.com/lidofinance/dc4bc/client/modules/state"
	"github.com/lidofinance/dc4bc/client/services"
	"github.com/lidofinance/dc4bc/client/services/fsmservice"
	"github.com/lidofinance/dc4bc/mocks/clientMocks"
	"github.com/lidofinance/dc4bc/mocks/serviceMocks"
	"github.com/lidofinance/dc4bc/mocks/storageMocks"
	"github.com/lidofinance/dc4bc/storage"
)

func TestWitnessRejectedMessageLeavesJunkRound(t *testing.T) {
	ctrl := gomock.NewController(t)
	defer ctrl.Finish()
	dir, _ := os.MkdirTemp("", "witness_c18_2_")
	defer os.RemoveAll(dir)
	st, err := state.NewLevelDBState(dir, "topic")
	if err != nil {
		t.Fatal(err)
	}
	ks := clientMocks.NewMockKeyStore(ctrl)
	ks.EXPECT().LoadKeys("alice", "").AnyTimes().Return(keystore.NewKeyPair(), nil)
	stg := storageMocks.NewMockStorage(ctrl)
	fsmSvc := fsmservice.NewFSMService(st, stg, "topic")
	sp := services.ServiceProvider{}
	sp.SetLogger(logger.NewLogger("alice"))
	sp.SetState(st)
	sp.SetKeyStore(ks)
	sp.SetStorage(stg)
	sp.SetFSMService(fsmSvc)
	sp.SetOperationService(serviceMocks.NewMockOperationService(ctrl))
	n, err := NewNode(context.Background(), &config.Config{Username: "alice", KafkaStorageConfig: &config.KafkaStorageConfig{Topic: "topic"}}, &sp)
	if err != nil {
		t.Fatal(err)
	}
	before, _ := st.Get("topic_" + fsmservice.FSMStateKey)
	err = n.ProcessMessage(storage.Message{ID: "m", DkgRoundID: "round-nobody-ever-opened", Event: "event_dkg_commit_confirm_received", Data: []byte(`{"ParticipantId":0}`), SenderAddr: "mallory", Signature: []byte("junk")})
	if err == nil {
		t.Fatal("junk message accepted")
	}
	after, _ := st.Get("topic_" + fsmservice.FSMStateKey)
	if string(before) != string(after) {
		t.Fatalf("a rejected message changed the durable round store:\n before: %s\n after:  %.120s…", before, after)
	}
}
