// Witness for F-C06-1 (property C06, rule C06/R3). Copy to fsm/state_machines/ and run
//   go test ./fsm/state_machines/ -run TestWitnessForeignBatchPartialSign
// On the defective tree the foreign-batch partial signature is ACCEPTED (test fails);
// on the repaired tree it is rejected (test passes).
package state_machines

import (
	"encoding/json"
	"testing"
	"time"

	"github.com/lidofinance/dc4bc/fsm/fsm"
	"github.com/lidofinance/dc4bc/fsm/state_machines/internal"
	sif "github.com/lidofinance/dc4bc/fsm/state_machines/signing_proposal_fsm"
	"github.com/lidofinance/dc4bc/fsm/types/requests"
)

func TestWitnessForeignBatchPartialSign(t *testing.T) {
	now := time.Now()
	dump := FSMDump{
		TransactionId: "round",
		State:         fsm.State(sif.StateSigningAwaitPartialSigns),
		Payload: &internal.DumpedMachineStatePayload{
			DkgId:     "round",
			Threshold: 2,
			SignatureProposalPayload: &internal.SignatureConfirmation{
				Quorum: internal.SignatureProposalQuorum{}, CreatedAt: now, UpdatedAt: now, ExpiresAt: now.Add(time.Hour)},
			DKGProposalPayload: &internal.DKGConfirmation{Quorum: internal.DKGProposalQuorum{
				0: {Username: "a"}, 1: {Username: "b"}, 2: {Username: "c"}}},
			SigningProposalPayload: &internal.SigningConfirmation{
				BatchID: "CURRENT",
				Quorum: internal.SigningProposalQuorum{
					0: {Username: "a", Status: internal.SigningAwaitPartialSigns},
					1: {Username: "b", Status: internal.SigningAwaitPartialSigns},
					2: {Username: "c", Status: internal.SigningAwaitPartialSigns}},
				CreatedAt: now, UpdatedAt: now, ExpiresAt: now.Add(time.Hour)},
		},
	}
	bz, err := json.Marshal(dump)
	if err != nil {
		t.Fatal(err)
	}
	inst, err := FromDump(bz)
	if err != nil {
		t.Fatal(err)
	}
	resp, _, err := inst.Do(sif.EventSigningPartialSignReceived, requests.SigningProposalBatchPartialSignRequests{
		BatchID:       "OTHER-BATCH",
		ParticipantId: 0,
		PartialSigns:  []requests.PartialSign{{MessageID: "m", Sign: []byte("stale")}},
		CreatedAt:     now,
	})
	if err == nil {
		t.Fatalf("partial signature made for batch OTHER-BATCH was accepted into batch CURRENT (state %s, participant status %v)",
			resp.State, inst.FSMDump().Payload.SigningProposalPayload.Quorum[0].Status)
	}
}
