// Witness for F-C18-10 (property C18, rule C18/R5 dependency-panic barrier). Copy to airgapped/ and run
//   go test ./airgapped/ -run TestWitnessDealWithShortNonceCrashesMachine -count=1
// A participant (the dealer) sends the victim a private deal that is correctly ECIES-encrypted and whose DH key is
// correctly signed by the dealer, but whose AES-GCM nonce has 5 bytes instead of 12. kyber's vss Verifier.DecryptDeal
// hands the nonce to cipher.AEAD.Open, which panics ("incorrect nonce length given to GCM"). Nothing between the
// operation file and kyber recovers: the airgapped machine crashes instead of answering with an error request, and
// crashes again whenever the operation is fed or replayed.
package airgapped

import (
	"encoding/json"
	"os"
	"testing"
	"time"

	client "github.com/lidofinance/dc4bc/client/types"
	"github.com/lidofinance/dc4bc/fsm/state_machines/dkg_proposal_fsm"
	"github.com/lidofinance/dc4bc/fsm/types/responses"
)

func TestWitnessDealWithShortNonceCrashesMachine(t *testing.T) {
	dir, _ := os.MkdirTemp("", "witness_c18_10_")
	defer os.RemoveAll(dir)
	mk := func(name string) *Machine {
		am, err := NewMachine(dir + "/db_" + name)
		if err != nil {
			t.Fatal(err)
		}
		am.SetEncryptionKey([]byte("password"))
		am.SetResultFolder(dir)
		if err := am.InitKeys(); err != nil {
			t.Fatal(err)
		}
		return am
	}
	victim, attacker := mk("victim"), mk("attacker")
	pk, _ := victim.GetPubKey().MarshalBinary()
	pk2, _ := attacker.GetPubKey().MarshalBinary()
	const round = "round-0001"
	commits, _ := json.Marshal(responses.DKGProposalPubKeysParticipantResponse{
		{ParticipantId: 0, Username: "victim", DkgPubKey: pk, Threshold: 2},
		{ParticipantId: 1, Username: "attacker", DkgPubKey: pk2, Threshold: 2},
	})
	for _, m := range []*Machine{victim, attacker} {
		op := client.Operation{ID: "op-commits", Type: client.OperationType(dkg_proposal_fsm.StateDkgCommitsAwaitConfirmations), Payload: commits, DKGIdentifier: round, CreatedAt: time.Now()}
		if _, err := m.GetOperationResult(op); err != nil {
			t.Fatal(err)
		}
	}
	// the attacker's genuine deal for the victim, with the nonce cut to 5 bytes
	deals, err := attacker.dkgInstances[round].GetDeals()
	if err != nil {
		t.Fatal(err)
	}
	deal := deals[0]
	if deal == nil || deal.Deal == nil {
		t.Fatalf("no deal for the victim: %v", deals)
	}
	deal.Deal.Nonce = deal.Deal.Nonce[:5]
	dealBz, _ := json.Marshal(deal)
	enc, err := attacker.encryptDataForParticipant(round, "victim", dealBz)
	if err != nil {
		t.Fatal(err)
	}
	payload, _ := json.Marshal(responses.DKGProposalDealParticipantResponse{
		{ParticipantId: 1, Username: "attacker", DkgDeal: enc},
	})
	op := client.Operation{ID: "op-responses", Type: client.OperationType(dkg_proposal_fsm.StateDkgResponsesAwaitConfirmations), Payload: payload, DKGIdentifier: round, CreatedAt: time.Now()}
	defer func() {
		if r := recover(); r != nil {
			t.Fatalf("a private deal with a 5-byte nonce crashed the airgapped machine: %v", r)
		}
	}()
	res, err := victim.GetOperationResult(op)
	if err != nil {
		t.Logf("rejected with a fatal error (acceptable): %v", err)
		return
	}
	if res.Event != dkg_proposal_fsm.EventDKGResponseConfirmationError {
		t.Fatalf("the malformed deal was not answered with the error event, got %q", res.Event)
	}
}

// Second shape of the same defect class: a "deal" shorter than one curve point. ecies.Decrypt slices the ciphertext at
// group.PointLen() without a length check (slice bounds out of range).
func TestWitnessShortDealCiphertextCrashesMachine(t *testing.T) {
	dir, _ := os.MkdirTemp("", "witness_c18_10b_")
	defer os.RemoveAll(dir)
	am, err := NewMachine(dir + "/db")
	if err != nil {
		t.Fatal(err)
	}
	am.SetEncryptionKey([]byte("password"))
	am.SetResultFolder(dir)
	if err := am.InitKeys(); err != nil {
		t.Fatal(err)
	}
	other, err := NewMachine(dir + "/db2")
	if err != nil {
		t.Fatal(err)
	}
	other.SetEncryptionKey([]byte("password"))
	other.SetResultFolder(dir)
	if err := other.InitKeys(); err != nil {
		t.Fatal(err)
	}
	pk, _ := am.GetPubKey().MarshalBinary()
	pk2, _ := other.GetPubKey().MarshalBinary()
	const round = "round-0002"
	commits, _ := json.Marshal(responses.DKGProposalPubKeysParticipantResponse{
		{ParticipantId: 0, Username: "victim", DkgPubKey: pk, Threshold: 2},
		{ParticipantId: 1, Username: "attacker", DkgPubKey: pk2, Threshold: 2},
	})
	if _, err := am.GetOperationResult(client.Operation{ID: "op-commits", Type: client.OperationType(dkg_proposal_fsm.StateDkgCommitsAwaitConfirmations), Payload: commits, DKGIdentifier: round, CreatedAt: time.Now()}); err != nil {
		t.Fatal(err)
	}
	payload, _ := json.Marshal(responses.DKGProposalDealParticipantResponse{
		{ParticipantId: 1, Username: "attacker", DkgDeal: []byte{1, 2, 3}},
	})
	defer func() {
		if r := recover(); r != nil {
			t.Fatalf("a 3-byte private deal crashed the airgapped machine: %v", r)
		}
	}()
	res, err := am.GetOperationResult(client.Operation{ID: "op-responses", Type: client.OperationType(dkg_proposal_fsm.StateDkgResponsesAwaitConfirmations), Payload: payload, DKGIdentifier: round, CreatedAt: time.Now()})
	if err != nil {
		t.Logf("rejected with a fatal error (acceptable): %v", err)
		return
	}
	if res.Event != dkg_proposal_fsm.EventDKGResponseConfirmationError {
		t.Fatalf("the malformed deal was not answered with the error event, got %q", res.Event)
	}
}
