// Witness for F-C14-3 (property C14, rule C14/R2). Copy to client/services/fsmservice/ and run
//   go test ./client/services/fsmservice/ -run TestWitnessRoundUpdateLostByConcurrentSave -count=1
// Schedule: goroutine 1 (API write-back for round X) is pre-empted inside SaveFSM after reading the round map; goroutine 2
// (poller) saves round Y; goroutine 1 resumes and writes its stale map. On the defective tree the update of Y is lost.
package fsmservice

import (
	"os"
	"sync"
	"testing"
	"time"

	"github.com/lidofinance/dc4bc/client/modules/state"
)

type parkingState struct {
	state.State
	key    string
	n      int
	parkAt int
	parked chan struct{}
	resume chan struct{}
	mu     sync.Mutex
}

func (p *parkingState) Get(key string) ([]byte, error) {
	v, err := p.State.Get(key)
	if key == p.key {
		p.mu.Lock()
		p.n++
		hit := p.n == p.parkAt
		p.mu.Unlock()
		if hit {
			close(p.parked)
			<-p.resume
		}
	}
	return v, err
}

func TestWitnessRoundUpdateLostByConcurrentSave(t *testing.T) {
	dir, _ := os.MkdirTemp("", "witness_c14_3_")
	defer os.RemoveAll(dir)
	st, err := state.NewLevelDBState(dir, "topic")
	if err != nil {
		t.Fatal(err)
	}
	ps := &parkingState{State: st, key: "topic_" + FSMStateKey, parked: make(chan struct{}), resume: make(chan struct{})}
	svc := NewFSMService(ps, nil, "topic").(*FSM)
	if err := svc.SaveFSM("round-x", []byte(`"x0"`)); err != nil {
		t.Fatal(err)
	}
	if err := svc.SaveFSM("round-y", []byte(`"y0"`)); err != nil {
		t.Fatal(err)
	}
	ps.mu.Lock()
	ps.parkAt = ps.n + 1
	ps.mu.Unlock()
	d1 := make(chan error, 1)
	go func() { d1 <- svc.SaveFSM("round-x", []byte(`"x1"`)) }()
	<-ps.parked
	d2 := make(chan error, 1)
	go func() { d2 <- svc.SaveFSM("round-y", []byte(`"y1"`)) }()
	select {
	case err := <-d2:
		if err != nil {
			t.Fatal(err)
		}
		close(ps.resume)
	case <-time.After(300 * time.Millisecond):
		close(ps.resume)
		if err := <-d2; err != nil {
			t.Fatal(err)
		}
	}
	if err := <-d1; err != nil {
		t.Fatal(err)
	}
	all, err := svc.getAllFSMData()
	if err != nil {
		t.Fatal(err)
	}
	if string(all["round-y"]) != `"y1"` || string(all["round-x"]) != `"x1"` {
		t.Fatalf("a round state update was lost: x=%s y=%s", all["round-x"], all["round-y"])
	}
}
