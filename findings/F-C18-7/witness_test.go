// Witness for F-C18-7 (property C18, rule C18/R1 decoded-deref). Copy to airgapped/ and run
//   go test ./airgapped/ -run TestWitnessNullEntry -count=1
// An operation file whose participant list contains a JSON null ([null]) — or, in the master-key step, a participant whose
// broadcast responses are [null] / [{"Index":0}] — makes the airgapped machine dereference a nil pointer: it crashes
// instead of rejecting the file / answering with the error request.
package airgapped

import (
	"encoding/json"
	"os"
	"testing"
	"time"

	client "github.com/lidofinance/dc4bc/client/types"
	"github.com/lidofinance/dc4bc/fsm/state_machines/dkg_proposal_fsm"
	"github.com/lidofinance/dc4bc/fsm/types/responses"
)

func witnessMachines(t *testing.T, dir string) (*Machine, *Machine, string) {
	mk := func(name string) *Machine {
		am, err := NewMachine(dir + "/db_" + name)
		if err != nil {
			t.Fatal(err)
		}
		am.SetEncryptionKey([]byte("password"))
		am.SetResultFolder(dir)
		if err := am.InitKeys(); err != nil {
			t.Fatal(err)
		}
		return am
	}
	a, b := mk("a"), mk("b")
	pk, _ := a.GetPubKey().MarshalBinary()
	pk2, _ := b.GetPubKey().MarshalBinary()
	const round = "round-0007"
	commits, _ := json.Marshal(responses.DKGProposalPubKeysParticipantResponse{
		{ParticipantId: 0, Username: "a", DkgPubKey: pk, Threshold: 2},
		{ParticipantId: 1, Username: "b", DkgPubKey: pk2, Threshold: 2},
	})
	for _, m := range []*Machine{a, b} {
		op := client.Operation{ID: "op-commits", Type: client.OperationType(dkg_proposal_fsm.StateDkgCommitsAwaitConfirmations), Payload: commits, DKGIdentifier: round, CreatedAt: time.Now()}
		if _, err := m.GetOperationResult(op); err != nil {
			t.Fatal(err)
		}
	}
	return a, b, round
}

func TestWitnessNullEntryInOperationPayload(t *testing.T) {
	dir, _ := os.MkdirTemp("", "witness_c18_7_")
	defer os.RemoveAll(dir)
	a, _, round := witnessMachines(t, dir)
	for _, st := range []string{
		string(dkg_proposal_fsm.StateDkgCommitsAwaitConfirmations),
		string(dkg_proposal_fsm.StateDkgDealsAwaitConfirmations),
		string(dkg_proposal_fsm.StateDkgResponsesAwaitConfirmations),
		string(dkg_proposal_fsm.StateDkgMasterKeyAwaitConfirmations),
	} {
		func() {
			defer func() {
				if r := recover(); r != nil {
					t.Errorf("operation of type %s with payload [null] crashed the machine: %v", st, r)
				}
			}()
			id := round
			if st == string(dkg_proposal_fsm.StateDkgCommitsAwaitConfirmations) {
				id = "round-other"
			}
			op := client.Operation{ID: "op-x", Type: client.OperationType(st), Payload: []byte(`[null]`), DKGIdentifier: id, CreatedAt: time.Now()}
			_, _ = a.GetOperationResult(op)
		}()
	}
}

func TestWitnessNullEntryInBroadcastResponses(t *testing.T) {
	dir, _ := os.MkdirTemp("", "witness_c18_7b_")
	defer os.RemoveAll(dir)
	a, _, round := witnessMachines(t, dir)
	for _, bad := range []string{`[null]`, `[{"Index":0}]`} {
		func() {
			defer func() {
				if r := recover(); r != nil {
					t.Errorf("responses %s broadcast by a participant crashed the machine: %v", bad, r)
				}
			}()
			payload, _ := json.Marshal(responses.DKGProposalResponseParticipantResponse{
				{ParticipantId: 1, Username: "b", DkgResponse: []byte(bad)},
			})
			op := client.Operation{ID: "op-mk", Type: client.OperationType(dkg_proposal_fsm.StateDkgMasterKeyAwaitConfirmations), Payload: payload, DKGIdentifier: round, CreatedAt: time.Now()}
			_, _ = a.GetOperationResult(op)
		}()
	}
}
