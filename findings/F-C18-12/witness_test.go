// Witness for F-C18-12 (property C18, rule C18/R2 restart-prehandler; known finding, not repaired).
// FINDING 2 (property C18, "rejected input is a no-op"):
// while a signing batch is in state_signing_partial_signs_await_cancelled_by_error, EVERY board message that
// passes the sender check - including one with an unknown event, or one that is refused because its participant id
// does not belong to the sender - first makes processMessage run event_signing_restart and SaveFSM, and only then is the
// message decoded and rejected. The message is reported as failed ("Failed to process message ..."), but the durable
// FSM state of the round has changed (cancelled_by_error -> stage_signing_idle).
//
// Copy to:  client/services/node/demo_c18_signing_error_test.go   (package node)
// Run:      export GOFLAGS=-mod=mod GOPROXY=off GOSUMDB=off GOTOOLCHAIN=local
//
//	go test -count=1 ./client/services/node/ -run TestC18RejectedMessageInSigningErrorStateChangesTheRound -v
//
// The test FAILS on the unmodified code (the durable state differs after a rejected message).
package node

import (
	"context"
	"crypto/ed25519"
	"encoding/json"
	"errors"
	"fmt"
	"path/filepath"
	"runtime/debug"
	"testing"
	"time"

	"github.com/google/uuid"

	"github.com/lidofinance/dc4bc/client/config"
	"github.com/lidofinance/dc4bc/client/modules/keystore"
	"github.com/lidofinance/dc4bc/client/modules/logger"
	"github.com/lidofinance/dc4bc/client/modules/state"
	oprepo "github.com/lidofinance/dc4bc/client/repositories/operation"
	sigrepo "github.com/lidofinance/dc4bc/client/repositories/signature"
	"github.com/lidofinance/dc4bc/client/services"
	"github.com/lidofinance/dc4bc/client/services/fsmservice"
	"github.com/lidofinance/dc4bc/client/services/operation"
	"github.com/lidofinance/dc4bc/client/services/signature"
	dpf "github.com/lidofinance/dc4bc/fsm/state_machines/dkg_proposal_fsm"
	spf "github.com/lidofinance/dc4bc/fsm/state_machines/signature_proposal_fsm"
	sif "github.com/lidofinance/dc4bc/fsm/state_machines/signing_proposal_fsm"
	"github.com/lidofinance/dc4bc/fsm/types/requests"
	"github.com/lidofinance/dc4bc/storage"
	"github.com/lidofinance/dc4bc/storage/file_storage"
)

func TestC18RejectedMessageInSigningErrorStateChangesTheRound(t *testing.T) {
	hostile := map[string]func(h *f2Harness) storage.Message{
		// an event the node does not know at all
		"unknown event": func(h *f2Harness) storage.Message {
			return h.msg(1, "no_such_event", []byte(`{"whatever":1}`))
		},
		// a participant speaking for somebody else: refused by the sender/participant-id binding
		"foreign participant id": func(h *f2Harness) storage.Message {
			return h.msg(1, string(sif.EventSigningPartialSignReceived), requests.SigningProposalBatchPartialSignRequests{
				BatchID: "batch-1", ParticipantId: 0, CreatedAt: h.now,
				PartialSigns: []requests.PartialSign{{MessageID: "m1", Sign: []byte{0, 1, 2, 3}}}})
		},
		// undecodable data for a known event
		"garbage data": func(h *f2Harness) storage.Message {
			return h.msg(1, string(sif.EventSigningStart), []byte(`{"BatchID":`))
		},
	}

	for name, build := range hostile {
		t.Run(name, func(t *testing.T) {
			h := f2New(t, 3)
			// genuine history: key generation, a signing batch, two participants report a signing error (n=3, t=2)
			for _, m := range h.genuineLog() {
				h.must(m)
			}
			h.must(h.msg(1, string(sif.EventSigningStart), requests.SigningBatchProposalStartRequest{
				BatchID: "batch-1", ParticipantId: 1, CreatedAt: h.now,
				SigningTasks: []requests.SigningTask{{MessageID: "m1", File: "f", Payload: []byte("hello")}}}))
			for _, i := range []int{0, 2} {
				h.must(h.msg(i, string(sif.EventSigningPartialSignError), requests.SignatureProposalConfirmationErrorRequest{
					ParticipantId: i, Error: requests.NewFSMError(errors.New("airgapped machine failed")), CreatedAt: h.now}))
			}
			if st := h.fsmState(); st != string(sif.StateSigningPartialSignsAwaitCancelledByError) {
				t.Fatalf("precondition: unexpected state %s", st)
			}

			before := h.snapshot()
			stateBefore := h.fsmState()
			perr, panicked := h.process(build(h))
			if panicked != nil {
				t.Fatalf("the node panicked: %v", panicked)
			}
			if perr == nil {
				t.Fatalf("precondition: the hostile message is expected to be rejected")
			}
			t.Logf("the node rejected the message: %v", perr)
			if diff := f2Diff(before, h.snapshot()); len(diff) > 0 {
				t.Errorf("C18 violated: the message was rejected, but these durable keys changed: %v (FSM state %q -> %q)",
					diff, stateBefore, h.fsmState())
			}
		})
	}
}

// ---------------------------------------------------------------------------
// harness: a real node (LevelDB state, file board, real FSM/operation/signature
// services, real keystore); nothing of the code under test is mocked
// ---------------------------------------------------------------------------

const f2Topic = "topic"

type f2Harness struct {
	t      testing.TB
	node   NodeService
	st     state.State
	fsmSvc fsmservice.FSMService
	opSvc  operation.OperationService
	names  []string
	keys   []*keystore.KeyPair
	round  string
	now    time.Time
}

func f2New(t testing.TB, n int) *f2Harness {
	dir := t.TempDir()
	st, err := state.NewLevelDBState(filepath.Join(dir, "state"), f2Topic)
	if err != nil {
		t.Fatal(err)
	}
	stg, err := file_storage.NewFileStorage(filepath.Join(dir, "board"), filepath.Join(dir, "lock"))
	if err != nil {
		t.Fatal(err)
	}
	h := &f2Harness{t: t, st: st, round: "0123456789abcdef0123456789abcdef", now: time.Now()}
	for i := 0; i < n; i++ {
		h.names = append(h.names, fmt.Sprintf("node_%d", i))
		h.keys = append(h.keys, keystore.NewKeyPair())
	}
	ks, err := keystore.NewLevelDBKeyStore(h.names[0], filepath.Join(dir, "ks"))
	if err != nil {
		t.Fatal(err)
	}
	if err := ks.PutKeys(h.names[0], h.keys[0]); err != nil {
		t.Fatal(err)
	}
	opRepo, err := oprepo.NewOperationRepo(st, f2Topic)
	if err != nil {
		t.Fatal(err)
	}
	h.opSvc = operation.NewOperationService(opRepo)
	h.fsmSvc = fsmservice.NewFSMService(st, stg, f2Topic)
	sp := services.ServiceProvider{}
	sp.SetLogger(logger.NewLogger(h.names[0]))
	sp.SetState(st)
	sp.SetKeyStore(ks)
	sp.SetStorage(stg)
	sp.SetFSMService(h.fsmSvc)
	sp.SetOperationService(h.opSvc)
	sp.SetSignatureService(signature.NewSignatureService(sigrepo.NewSignatureRepo(st)))
	cfg := config.Config{Username: h.names[0], KafkaStorageConfig: &config.KafkaStorageConfig{Topic: f2Topic}}
	h.node, err = NewNode(context.Background(), &cfg, &sp)
	if err != nil {
		t.Fatal(err)
	}
	return h
}

// msg builds a board message signed by participant #sender
func (h *f2Harness) msg(sender int, event string, v interface{}) storage.Message {
	data, ok := v.([]byte)
	if !ok {
		var err error
		if data, err = json.Marshal(v); err != nil {
			h.t.Fatal(err)
		}
	}
	m := storage.Message{ID: uuid.New().String(), DkgRoundID: h.round, Event: event, Data: data, SenderAddr: h.names[sender]}
	m.Signature = ed25519.Sign(h.keys[sender].Priv, m.Bytes())
	return m
}

// process feeds a message to the node the way Poll does, a panic is reported instead of killing the test binary
func (h *f2Harness) process(m storage.Message) (err error, panicked interface{}) {
	defer func() {
		if r := recover(); r != nil {
			panicked = fmt.Sprintf("%v\n%s", r, debug.Stack())
		}
	}()
	return h.node.ProcessMessage(m), nil
}

func (h *f2Harness) must(m storage.Message) {
	if err, p := h.process(m); err != nil || p != nil {
		h.t.Fatalf("genuine message %s was not accepted: err=%v panic=%v", m.Event, err, p)
	}
}

// snapshot returns every durable key of the node except for the read offset
func (h *f2Harness) snapshot() map[string]string {
	out := map[string]string{}
	for _, k := range []string{
		f2Topic + "_" + fsmservice.FSMStateKey,
		f2Topic + "_" + oprepo.OperationsKey,
		f2Topic + "_" + oprepo.DeletedOperationsKey,
		sigrepo.SignaturesKeyPrefix + "_" + h.round,
		sigrepo.SignaturesKeyPrefix + "_",
	} {
		bz, err := h.st.Get(k)
		if err != nil {
			h.t.Fatal(err)
		}
		out[k] = string(bz)
	}
	return out
}

func f2Diff(a, b map[string]string) []string {
	var keys []string
	for k := range a {
		if a[k] != b[k] {
			keys = append(keys, k)
		}
	}
	return keys
}

func (h *f2Harness) fsmState() string {
	inst, err := h.fsmSvc.GetFSMInstance(h.round, false)
	if err != nil {
		return "<no round: " + err.Error() + ">"
	}
	s, _ := inst.State()
	return string(s)
}

// genuineLog is the board log of a complete, genuine key generation of the round (the node FSM does not look
// inside commits/deals/responses, so opaque bytes are enough here)
func (h *f2Harness) genuineLog() []storage.Message {
	var msgs []storage.Message
	add := func(m storage.Message) {
		m.Offset = uint64(len(msgs))
		msgs = append(msgs, m)
	}
	prop := requests.SignatureProposalParticipantsListRequest{SigningThreshold: 2, CreatedAt: h.now}
	for i := range h.names {
		prop.Participants = append(prop.Participants, &requests.SignatureProposalParticipantsEntry{
			Username: h.names[i], PubKey: h.keys[i].Pub, DkgPubKey: make([]byte, 48)})
	}
	add(h.msg(0, string(spf.EventInitProposal), prop))
	for i := range h.names {
		add(h.msg(i, string(spf.EventConfirmSignatureProposal), requests.SignatureProposalParticipantRequest{ParticipantId: i, CreatedAt: h.now}))
	}
	for i := range h.names {
		add(h.msg(i, string(dpf.EventDKGCommitConfirmationReceived), requests.DKGProposalCommitConfirmationRequest{ParticipantId: i, Commit: []byte("commit"), CreatedAt: h.now}))
	}
	for i := range h.names {
		add(h.msg(i, string(dpf.EventDKGDealConfirmationReceived), requests.DKGProposalDealConfirmationRequest{ParticipantId: i, Deal: []byte("deal"), CreatedAt: h.now}))
	}
	for i := range h.names {
		add(h.msg(i, string(dpf.EventDKGResponseConfirmationReceived), requests.DKGProposalResponseConfirmationRequest{ParticipantId: i, Response: []byte("response"), CreatedAt: h.now}))
	}
	for i := range h.names {
		add(h.msg(i, string(dpf.EventDKGMasterKeyConfirmationReceived), requests.DKGProposalMasterKeyConfirmationRequest{ParticipantId: i, MasterKey: []byte("masterkey"), PubPolyBz: []byte(`{"Commitments":[]}`), CreatedAt: h.now}))
	}
	return msgs
}
